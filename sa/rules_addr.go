package main

// W-addr (C15): Base58Check layout agreement between the address encoder, the decoder and the
// validator: payload = version(1) . hash(20) . first four bytes of SHA256d(version . hash).

import (
	"fmt"
	"go/constant"
	"go/token"
	"math/big"
	"regexp"
	"strings"

	"golang.org/x/tools/go/ssa"
)

func termsOfCalls(fn *ssa.Function) (calls []string, stores []string, rets []string) {
	env := newTermEnv()
	for _, b := range fn.Blocks {
		for _, ins := range b.Instrs {
			switch x := ins.(type) {
			case *ssa.Call:
				var as []string
				for _, a := range x.Call.Args {
					as = append(as, canonTerm(env.Term(a)))
				}
				name := x.Call.Value.Name()
				if sc := x.Call.StaticCallee(); sc != nil {
					name = sc.Name()
				}
				calls = append(calls, name+"("+strings.Join(as, ", ")+")")
			case *ssa.Store:
				stores = append(stores, canonTerm(env.Term(x.Addr))+" := "+canonTerm(env.Term(x.Val)))
			case *ssa.Return:
				for _, r := range x.Results {
					rets = append(rets, canonTerm(env.Term(r)))
				}
			}
		}
	}
	return
}

func ruleWAddr(c *Ctx) {
	get := func(recv, name string) *ssa.Function {
		fn := c.P.Func("bscript", recv, name)
		if fn == nil {
			c.Undecided("W-addr", recv+name, token.NoPos, "not found")
		}
		return fn
	}
	// checksum = first 4 bytes of Sha256d(input), copied into the 4-byte result
	if fn := get("", "checksum"); fn != nil {
		calls, _, rets := termsOfCalls(fn)
		ok := len(calls) == 2 && calls[0] == "Sha256d(p0)" && calls[1] == "copy(alloc#0[0:len(alloc#0)], github.com/libsv/go-bk/crypto.Sha256d(p0)[0:4])" && len(rets) == 1 && rets[0] == "*alloc#0"
		c.Check(ok, "W-addr", "checksum", fn.Pos(), "checksum(x) = SHA256d(x)[0:4]", "checksum is no longer the first four bytes of SHA256d of its input: "+strings.Join(calls, "; "))
	}
	// encoder: base58(input . checksum(input))
	if fn := get("", "Base58EncodeMissingChecksum"); fn != nil {
		calls, _, _ := termsOfCalls(fn)
		var seq []string
		for _, cl := range calls {
			if !strings.HasPrefix(cl, "len(") {
				seq = append(seq, dynCallRe.ReplaceAllString(cl, "APP("))
			}
		}
		got := strings.Join(seq, " ; ")
		cp := "APP(%*ssa.MakeSlice#0, p0[0:len(p0)])"
		want := "append(%*ssa.MakeSlice#0, p0[0:len(p0)]) ; checksum(" + cp + ") ; append(" + cp + ", alloc#0[0:len(alloc#0)]) ; Encode(APP(" + cp + ", alloc#0[0:len(alloc#0)]))"
		c.Check(got == want, "W-addr", "Base58EncodeMissingChecksum", fn.Pos(), "encodes input . checksum(input) (the checksum taken over a private copy of the whole input)", "Base58EncodeMissingChecksum no longer encodes input . checksum(input): "+got)
	}
	// address builders: version byte (0 on mainnet, 111 otherwise) then the hash, handed to the encoder
	for _, name := range []string{"NewAddressFromPublicKeyHash", "NewAddressFromPublicKey"} {
		fn := get("", name)
		if fn == nil {
			continue
		}
		for _, mainnet := range []bool{true, false} {
			got, hashTerm := addressPayload(c, fn, mainnet, 0)
			ver := "6f"
			if mainnet {
				ver = "00"
			}
			wantHash := "p0"
			if name == "NewAddressFromPublicKey" {
				wantHash = "github.com/libsv/go-bk/crypto.Hash160((*github.com/libsv/go-bk/bec.PublicKey).SerialiseCompressed(p0))"
			}
			ok, why, _ := layEqual(got, seqOf(&Lay{K: "const", S: ver}, raw("HASH")), nil)
			okHash := strings.HasPrefix(hashTerm, wantHash)
			c.Check(ok && okHash, "W-addr", fmt.Sprintf("%s/mainnet=%v", name, mainnet), fn.Pos(), "payload = version byte 0x"+ver+" followed by the hash",
				fmt.Sprintf("the address payload is no longer version byte 0x%s . hash: %v (%s), hash taken from %s", ver, got, why, shorten(hashTerm, 120)))
		}
	}
	// validator: checksum over bytes 0..21, embedded checksum = bytes 21..25 (in validA58 itself or in the
	// two small methods it may delegate to; the 25-byte accumulator is called A here)
	{
		var calls []string
		norm := regexp.MustCompile(`\bp0\b|alloc#\d+`)
		for _, spec := range [][2]string{{"", "validA58"}, {"*a25", "computeChecksum"}, {"*a25", "embeddedChecksum"}} {
			fn := c.P.Func("bscript", spec[0], spec[1])
			if fn == nil {
				continue
			}
			cs, _, _ := termsOfCalls(fn)
			for _, cl := range cs {
				calls = append(calls, norm.ReplaceAllString(cl, "A"))
			}
		}
		okSha, okCopySha, okEmb := false, false, false
		for _, cl := range calls {
			switch {
			case cl == "Sha256d(A[0:21])":
				okSha = true
			case strings.HasPrefix(cl, "copy(A[0:len(A)], github.com/libsv/go-bk/crypto.Sha256d(A[0:21])"):
				okCopySha = true
			case cl == "copy(A[0:len(A)], A[21:len(A)])" || cl == "copy(A[0:len(A)], A[21:25])":
				okEmb = true
			}
		}
		// or: one predicate on the accumulator that compares bytes 21..25 with the first four bytes of
		// SHA256d(bytes 0..21) one by one, and that every success of validA58 has seen true
		if !(okSha && okCopySha && okEmb) {
			if v := c.P.Func("bscript", "", "validA58"); v != nil {
				if why := validatorChecksumByLoop(c, v); why == "" {
					okSha, okCopySha, okEmb = true, true, true
				} else if why != "-" {
					calls = append(calls, why)
				}
			}
		}
		c.Check(okSha && okCopySha, "W-addr", "a25.computeChecksum", token.NoPos, "SHA256d over version . hash (bytes 0..21), first four bytes (the result array holds four)", "the validator no longer computes the checksum over bytes 0..21: "+strings.Join(calls, "; "))
		c.Check(okEmb, "W-addr", "a25.embeddedChecksum", token.NoPos, "the embedded checksum is bytes 21..25", "the validator no longer reads the embedded checksum from bytes 21..25: "+strings.Join(calls, "; "))
	}
	// the string is validated as given (helpers ValidateAddress was split into are read as part of it)
	if fn := get("", "ValidateAddress"); fn != nil {
		okV, okD, other := false, false, ""
		paths, err := feasiblePaths(fn, 500)
		if err != nil {
			c.Undecided("W-addr", "ValidateAddress/as-given", fn.Pos(), err.Error())
		} else {
			for _, d := range paths {
				for _, ins := range pathInstrs(d) {
					call, ok := ins.(*ssa.Call)
					if !ok || call.Call.StaticCallee() == nil {
						continue
					}
					switch call.Call.StaticCallee().Name() {
					case "validA58":
						if a := atomName(d.Env.Term(call.Call.Args[0])); a == "[]byte(p0)" {
							okV = true
						} else {
							other = "validA58(" + a + ")"
						}
					case "DecodeBIP276":
						if a := atomName(d.Env.Term(call.Call.Args[0])); a == "p0" {
							okD = true
						} else {
							other = "DecodeBIP276(" + a + ")"
						}
					}
				}
			}
			c.Check(okV && okD && other == "", "W-addr", "ValidateAddress/as-given", fn.Pos(), "the caller's string itself is handed to validA58 / DecodeBIP276", "ValidateAddress transforms the string before validating it (trimmed, lower-cased ...): it accepts strings that the address constructors reject "+other)
		}
	}
	// decoder: 25 bytes, hash = bytes 1..21
	if fn := get("", "addressToPubKeyHashStr"); fn != nil {
		paths, err := feasiblePaths(fn, 500)
		if err != nil {
			c.Undecided("W-addr", "addressToPubKeyHashStr", fn.Pos(), err.Error())
			return
		}
		n, okSlices, okLen := 0, true, true
		detail := ""
		okText, textDetail := true, ""
		for _, d := range paths {
			if d.EndKind != "return" || len(d.Ret.Results) != 2 {
				continue
			}
			if et := d.Env.Term(d.Ret.Results[1]); !(et.K == "const" && et.C == nil) {
				continue
			}
			n++
			rt := d.Env.Term(d.Ret.Results[0])
			call, isCall := rt.V.(*ssa.Call)
			if !isCall || call.Call.StaticCallee() == nil || call.Call.StaticCallee().String() != "encoding/hex.EncodeToString" || len(rt.Args) != 1 {
				okSlices = false
				detail = "a success return is not the hex form of a slice of the payload: " + atomName(rt)
				continue
			}
			sl := flattenSlice(rt.Args[0])
			if sl.K != "slice" || !strings.Contains(atomName(sl.Args[0]), "base58.Decode(p0)") {
				okSlices = false
				detail = "the hash is not cut out of the decoded payload: " + atomName(sl)
				continue
			}
			asg := map[string]*big.Int{"len(" + sl.Args[0].String() + ")": big.NewInt(25)}
			lo, ok1 := evalTerm(sl.Args[1], asg)
			hi, ok2 := evalTerm(sl.Args[2], asg)
			if !ok1 || !ok2 || lo.Int64() != 1 || hi.Int64() != 21 {
				okSlices = false
				detail = "the hash is taken from " + atomName(sl)
			}
			// the length test holds on this path
			has := false
			for _, pc := range d.Conds {
				a, flip := canonAtom(atomName(pc.Cond))
				if strings.HasPrefix(a, "(len(") && strings.HasSuffix(a, " == 25)") && pc.Truth != flip {
					has = true
				}
			}
			if !has {
				okLen = false
			}
			// nothing else refuses an address the library itself derives: a condition that does not speak about the
			// decoded payload speaks about the text, and may only be a length window that lets every length a
			// 25-byte payload with a supported version byte can have (26..35 characters) through
			for _, pc := range d.Conds {
				a := atomName(pc.Cond)
				if strings.Contains(a, "base58.Decode(p0)") {
					continue
				}
				bt := map[string]*T{}
				baseTerms(pc.Cond, bt)
				onlyLen := len(bt) > 0
				for k := range bt {
					if k != "len(p0)" {
						onlyLen = false
					}
				}
				if !onlyLen {
					okText = false
					textDetail = "a condition on the text itself that the rule cannot evaluate: " + shorten(a, 80)
					continue
				}
				for L := int64(26); L <= 35; L++ {
					v, ok := evalTerm(pc.Cond, map[string]*big.Int{"len(p0)": big.NewInt(L)})
					if !ok || (v.Sign() != 0) != pc.Truth {
						okText = false
						textDetail = fmt.Sprintf("an address of %d characters is refused by %s before it is decoded (25-byte payloads with version 0x00 / 0x6f have 26..35 characters)", L, shorten(a, 60))
						break
					}
				}
			}
		}
		c.Check(okText, "W-addr", "addressToPubKeyHashStr/text-conditions", fn.Pos(), "success depends on the decoded payload only (or on a text length window that lets 26..35 characters through)",
			"the decoder refuses addresses the library derives: "+textDetail)
		c.Check(n >= 1 && okSlices && okLen, "W-addr", "addressToPubKeyHashStr", fn.Pos(), "decoded payload must be 25 bytes; the hash is bytes 1..21",
			fmt.Sprintf("the decoder no longer takes bytes 1..21 of a 25-byte payload as the hash (%d success paths, slices ok %v, length test %v) %s", n, okSlices, okLen, detail))
	}
}

// addressPayload: the bytes an address constructor hands to Base58EncodeMissingChecksum under a
// valuation of its mainnet flag, with the hash operand named HASH; a constructor that delegates to
// NewAddressFromPublicKeyHash(h, mainnet) is followed into it. Returns the term of the hash too.
func addressPayload(c *Ctx, fn *ssa.Function, mainnet bool, depth int) (*Lay, string) {
	w := newWEval(c.P, fn)
	if len(fn.Params) < 2 {
		return unk("no mainnet parameter"), ""
	}
	w.consts[fn.Params[1]] = constant.MakeBool(mainnet)
	for _, b := range fn.Blocks {
		for _, ins := range b.Instrs {
			call, ok := ins.(*ssa.Call)
			if !ok || call.Call.StaticCallee() == nil {
				continue
			}
			switch call.Call.StaticCallee().Name() {
			case "Base58EncodeMissingChecksum":
				l := seqOf(w.eval(call.Call.Args[0]))
				hash := ""
				for _, it := range l.Items {
					if it.K == "raw" {
						hash = it.S
						it.S = "HASH"
					}
				}
				return l, hash
			case "NewAddressFromPublicKeyHash":
				if depth == 0 && call.Call.Args[1] == ssa.Value(fn.Params[1]) {
					l, h := addressPayload(c, call.Call.StaticCallee(), mainnet, depth+1)
					if h == "p0" {
						h = w.term(call.Call.Args[0])
					}
					return l, h
				}
			}
		}
	}
	return unk("no call to the Base58Check encoder"), ""
}

// validatorChecksumByLoop: "" when every success return of validA58 is dominated by a true result of a
// boolean helper on the accumulator whose body is the elementwise comparison A[21:25] == Sha256d(A[0:21])[0:4];
// "-" when there is no such helper call at all.
func validatorChecksumByLoop(c *Ctx, v *ssa.Function) string {
	var helperCall *ssa.Call
	var eq *rangeEq
	for _, b := range v.Blocks {
		for _, ins := range b.Instrs {
			if call, ok := ins.(*ssa.Call); ok {
				if sc := call.Call.StaticCallee(); sc != nil && inScope(pkgPathOf(sc)) && len(call.Call.Args) == 1 {
					if e := elementwiseEq(sc); e != nil {
						helperCall, eq = call, e
					}
				}
			}
		}
	}
	if helperCall == nil {
		return "-"
	}
	sc := helperCall.Call.StaticCallee()
	env := newTermEnv()
	xt, yt := atomName(env.Term(eq.X)), atomName(env.Term(eq.Y))
	if xt != "p0" || eq.XLo != 21 || eq.XHi != 25 {
		return "the checksum predicate " + funcName(sc) + " compares " + xt + fmt.Sprintf("[%d:%d]", eq.XLo, eq.XHi) + ", not bytes 21..25 of the decoded address"
	}
	if yt != "github.com/libsv/go-bk/crypto.Sha256d(p0[0:21])" || eq.YLo != 0 || eq.YHi != 4 {
		return "the checksum predicate " + funcName(sc) + " compares with " + yt + fmt.Sprintf("[%d:%d]", eq.YLo, eq.YHi) + ", not the first four bytes of SHA256d(bytes 0..21)"
	}
	// every success return of validA58 has seen the predicate true
	n := 0
	for _, b := range v.Blocks {
		ret, ok := b.Instrs[len(b.Instrs)-1].(*ssa.Return)
		if !ok || len(ret.Results) != 2 {
			continue
		}
		if k, isK := ret.Results[0].(*ssa.Const); !isK || k.Value == nil || !constant.BoolVal(k.Value) {
			continue
		}
		n++
		seen := false
		for _, dc := range dominatingConds(b) {
			cond, truth := dc.cond, dc.truth
			for {
				u, ok := cond.(*ssa.UnOp)
				if !ok || u.Op != token.NOT {
					break
				}
				cond, truth = u.X, !truth
			}
			if cond == ssa.Value(helperCall) && truth {
				seen = true
			}
		}
		if !seen {
			return "validA58 can report a valid address without " + funcName(sc) + " having returned true"
		}
	}
	if n == 0 {
		return "validA58 has no success return"
	}
	return ""
}
