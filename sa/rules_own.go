package main

// Rules on top of engine O.

import (
	"fmt"
	"go/token"
	"go/types"
	"sort"
	"strings"

	"golang.org/x/tools/go/ssa"
)

var oEngineCache = map[*Prog]*OEngine{}

// stack-item / script-data source tags for the O-immut rule.
func interpSourceTags(fn *ssa.Function, v ssa.Value) []string {
	if pkgPathOf(fn) != modPath+"/bscript/interpreter" {
		return nil
	}
	switch x := v.(type) {
	case *ssa.Extract:
		if c, ok := x.Tuple.(*ssa.Call); ok && x.Index == 0 {
			if sc := c.Call.StaticCallee(); sc != nil && sc.Signature.Recv() != nil && isNamedPtr(sc.Signature.Recv().Type(), "stack") {
				switch sc.Name() {
				case "PopByteArray", "PeekByteArray", "nipN":
					return []string{"stackitem"}
				}
			}
		}
	case *ssa.UnOp:
		if x.Op != token.MUL {
			return nil
		}
		if fa, ok := x.X.(*ssa.FieldAddr); ok {
			n := namedOfPtr(fa.X.Type())
			if n != nil && n.Obj().Name() == "ParsedOpcode" && fieldName(fa.X.Type(), fa.Field) == "Data" {
				return []string{"opdata"}
			}
		}
		if ia, ok := x.X.(*ssa.IndexAddr); ok {
			// element of stack.stk
			if ld, ok := ia.X.(*ssa.UnOp); ok {
				if fa, ok := ld.X.(*ssa.FieldAddr); ok {
					n := namedOfPtr(fa.X.Type())
					if n != nil && n.Obj().Name() == "stack" && fieldName(fa.X.Type(), fa.Field) == "stk" {
						return []string{"stackitem"}
					}
				}
			}
		}
	case *ssa.Field:
		if n, ok := x.X.Type().(*types.Named); ok && n.Obj().Name() == "ParsedOpcode" && fieldName(x.X.Type(), x.Field) == "Data" {
			return []string{"opdata"}
		}
	}
	return nil
}

func oEngine(c *Ctx) *OEngine {
	if e, ok := oEngineCache[c.P]; ok {
		return e
	}
	e := NewOEngine(c.P, OConfig{SourceTags: interpSourceTags})
	e.Run()
	oEngineCache[c.P] = e
	return e
}

func oCommon(c *Ctx, e *OEngine, rule string) {
	c.Covered["O:functions_summarised"] = len(e.fns)
	var us []string
	for u := range e.Unknown {
		if strings.Contains(u, "embed.FS") {
			continue // testing/data helper, outside scope
		}
		us = append(us, u)
	}
	sort.Strings(us)
	for _, u := range us {
		c.Undecided(rule, "ext-contract/"+u, e.Unknown[u], "external function "+u+" receives caller-visible references and has no contract in contracts.go")
	}
	var cbs []string
	for u := range e.UserCallbacks {
		cbs = append(cbs, u)
	}
	sort.Strings(cbs)
	c.Covered["O:user_callback_sites"] = len(cbs)
	if len(cbs) > 0 {
		c.Notes = append(c.Notes, "dynamic calls with no library callee (user-supplied functions, assumed not to write library-owned memory): "+strings.Join(cbs, "; "))
	}
}

func shortRoot(r string) string {
	r = strings.ReplaceAll(r, "bscript/interpreter.", "")
	return r
}

func writeKey(prefix string, w *OWrite) string {
	return fmt.Sprintf("%s/%s%s <- %s", prefix, shortRoot(w.Root), w.Path, w.Site)
}

func writeDetail(c *Ctx, w *OWrite) string {
	via := w.Via
	if via != "" {
		via = " reached via " + via
	}
	return fmt.Sprintf("%s of %s%s by %s (%s)%s", w.Kind, shortRoot(w.Root), w.Path, w.Site, c.P.Pos(w.Pos), via)
}

func sortedWrites(s *OSummary) []*OWrite {
	var ws []*OWrite
	for _, w := range s.Writes {
		ws = append(ws, w)
	}
	sort.Slice(ws, func(i, j int) bool { return ws[i].key() < ws[j].key() })
	return ws
}

// O-pure(Engine.Execute, caller data) — C08
func ruleOPureExecute(c *Ctx) {
	e := oEngine(c)
	oCommon(c, e, "O-pure")
	fn := c.P.Func("bscript/interpreter", "*engine", "Execute")
	if fn == nil {
		c.Undecided("O-pure", "Execute", token.NoPos, "(*engine).Execute not found")
		return
	}
	s := e.Sums[fn]
	callerRoots := 0
	seenRoots := map[string]bool{}
	bySite := map[string][]*OWrite{}
	n := 0
	for _, w := range sortedWrites(s) {
		switch {
		case strings.HasPrefix(w.Root, "V:"):
			seenRoots[w.Root] = true
			if strings.Contains(w.Root, "WithState$1#state") {
				continue // WithState is documented as unstable and excluded from the property (DESIGN §4 C07/C08)
			}
			n++
			if strings.HasSuffix(w.Root, "WithTx$1#tx") && w.Kind == "store" &&
				(w.Path == ".Inputs[*].PreviousTxScript" || w.Path == ".Inputs[*].PreviousTxSatoshis") && strings.Contains(w.Site, ".thread).apply#") {
				c.OK("O-pure", writeKey("Execute/documented", w), w.Pos, "the documented exception: the spent output's script/value are recorded on the checked input")
				continue
			}
			bySite[w.Site] = append(bySite[w.Site], w)
		case strings.HasPrefix(w.Root, "G:"):
			// handled by O-glob
		case strings.HasPrefix(w.Root, "P"):
			n++
			c.Fail("O-pure", writeKey("Execute", w), w.Pos, "execution writes through its own arguments: "+writeDetail(c, w))
		}
	}
	var sites []string
	for st := range bySite {
		sites = append(sites, st)
	}
	sort.Strings(sites)
	for _, st := range sites {
		ws := bySite[st]
		var tg []string
		for _, w := range ws {
			tg = append(tg, shortRoot(w.Root)+w.Path)
		}
		c.Fail("O-pure", "Execute <- "+st, ws[0].Pos, fmt.Sprintf("execution writes caller-owned memory %v: %s", tg, writeDetail(c, ws[0])))
	}
	// the caller-data roots must be visible to the analysis (vacuity guard): the option closures' free variables
	for _, want := range []string{"WithTx$1#tx"} {
		found := false
		for r := range seenRoots {
			if strings.HasSuffix(r, want) {
				found = true
				callerRoots++
			}
		}
		if !found {
			c.Undecided("O-pure", "Execute/roots/"+want, fn.Pos(), "the analysis no longer sees the caller's "+want+" flowing into the thread (option closures changed?)")
		}
	}
	c.OK("O-pure", "Execute/summary", fn.Pos(), fmt.Sprintf("%d writes to caller-visible memory examined; caller data enters through the option closures' captured variables", n))
	c.Covered["O-pure:execute_caller_writes"] = n
}

// O-immut — C08: no element write reaches a shared byte slice (stack item / script data).
func ruleOImmut(c *Ctx) {
	e := oEngine(c)
	nTagged := 0
	for fn, vals := range e.Vals {
		if pkgPathOf(fn) != modPath+"/bscript/interpreter" {
			continue
		}
		for _, s := range vals {
			if s["S:stackitem|"] || s["S:opdata|"] {
				nTagged++
			}
		}
	}
	c.Covered["O-immut:values_derived_from_shared_items"] = nTagged
	c.MinInstances("O-immut/sources", nTagged, 70)
	seen := map[string]bool{}
	nw := 0
	for _, fn := range e.fns {
		if pkgPathOf(fn) != modPath+"/bscript/interpreter" {
			continue
		}
		for _, w := range sortedWrites(e.Sums[fn]) {
			if !strings.HasPrefix(w.Root, "S:") || seen[w.Site] {
				continue
			}
			seen[w.Site] = true
			nw++
			c.Fail("O-immut", "shared-item <- "+w.Site, w.Pos,
				"in-place write to a byte slice that may be shared with another stack item or with the caller's script: "+writeDetail(c, w))
		}
	}
	// handlers confirmed to allocate their result: their pushes must be fresh
	handlers := 0
	for _, fn := range e.fns {
		if pkgPathOf(fn) == modPath+"/bscript/interpreter" && fn.Signature.Recv() == nil && strings.HasPrefix(fn.Name(), "opcode") {
			handlers++
		}
	}
	c.MinInstances("O-immut/handlers", handlers, 75)
	if nw == 0 {
		c.OK("O-immut", "no-sinks", token.NoPos, fmt.Sprintf("no store/copy/append/external write reaches any of the %d values derived from stack items or ParsedOpcode.Data in %d handlers", nTagged, handlers))
	}
}

// O-glob — C18: nothing reachable from Execute writes package-level state.
func ruleOGlob(c *Ctx) {
	e := oEngine(c)
	oCommon(c, e, "O-glob")
	fn := c.P.Func("bscript/interpreter", "*engine", "Execute")
	if fn == nil {
		c.Undecided("O-glob", "Execute", token.NoPos, "(*engine).Execute not found")
		return
	}
	n := 0
	for _, w := range sortedWrites(e.Sums[fn]) {
		if strings.HasPrefix(w.Root, "G:") {
			n++
			c.Fail("O-glob", writeKey("Execute", w), w.Pos, "a function reachable from Engine.Execute writes package-level state shared by all goroutines: "+writeDetail(c, w))
		}
	}
	if n == 0 {
		c.OK("O-glob", "Execute/no-global-writes", fn.Pos(), "the transitive write summary of (*engine).Execute contains no package-level root")
	}
	// engine has no fields
	if obj := c.P.Pkgs[modPath+"/bscript/interpreter"].Types.Scope().Lookup("engine"); obj != nil {
		st, _ := obj.Type().Underlying().(*types.Struct)
		why := ""
		if st == nil {
			why = "type engine is not a struct"
		} else if st.NumFields() > 0 {
			// fields are no shared mutable state if they hold no reference, are stored only while an engine is
			// being built (through a fresh local) and are otherwise read by value
			why = engineFieldsReadOnly(c, obj.Type(), st)
		}
		c.Check(why == "", "O-glob", "engine-stateless", obj.Pos(), "type engine has no state shared between Execute calls (no fields, or value-only fields written only while it is built and read by value)", "type engine has fields: shared state between concurrent Execute calls: "+why)
	} else {
		c.Undecided("O-glob", "engine-stateless", token.NoPos, "type engine not found")
	}
	// every thread is freshly allocated per Execute
	ct := c.P.Func("bscript/interpreter", "", "createThread")
	if ct == nil {
		c.Undecided("O-glob", "thread-fresh", token.NoPos, "createThread not found")
	} else {
		r := e.Sums[ct].Results[0]
		only := len(r) == 1 && r["FRESH|"]
		c.Check(only, "O-glob", "thread-fresh", ct.Pos(), "createThread returns a fresh thread", fmt.Sprintf("createThread's result may alias %v", r.sorted()))
	}
	// Execute's receiver is not written and not stored anywhere
	for k := range e.Sums[fn].ParamHeap {
		if strings.HasPrefix(k, "G:") {
			c.Fail("O-glob", "Execute/global-contaminated/"+k, fn.Pos(), "per-execution data is stored into package-level memory "+k)
		}
	}
}

// receiver purity: function writes nothing under the given parameter.
func rulePureParam(c *Ctx, rule, pkg, recv, name string, param int, allowed func(w *OWrite) (bool, string)) {
	e := oEngine(c)
	fn := c.P.Func(pkg, recv, name)
	label := recv + "." + name
	if fn == nil {
		c.Undecided(rule, label, token.NoPos, "function not found")
		return
	}
	root := fmt.Sprintf("P%d", param)
	bad := 0
	for _, w := range sortedWrites(e.Sums[fn]) {
		if w.Root != root {
			continue
		}
		if allowed != nil {
			if ok, why := allowed(w); ok {
				c.OK(rule, writeKey(label+"/allowed", w), w.Pos, why)
				continue
			}
		}
		bad++
		c.Fail(rule, writeKey(label, w), w.Pos, fmt.Sprintf("%s writes memory reachable from its %s: %s", label, paramDesc(fn, param), writeDetail(c, w)))
	}
	if bad == 0 {
		c.OK(rule, label+"/pure", fn.Pos(), fmt.Sprintf("transitive write summary contains no write under %s (functions summarised: %d)", paramDesc(fn, param), len(e.fns)))
	}
}

func paramDesc(fn *ssa.Function, i int) string {
	if i < len(fn.Params) {
		if fn.Signature.Recv() != nil && i == 0 {
			return "receiver"
		}
		return "parameter " + fn.Params[i].Name()
	}
	return fmt.Sprintf("parameter %d", i)
}

// ruleOPureSighashFor: purity of the receiver for the FORKID algorithm (forkid=true: CalcInputPreimage
// and its three hash helpers) or the legacy one. CalcInputSignatureHash reaches both builders through
// sigStrat's function value; writes that sit in the other algorithm's builder belong to the other
// property and are left to its check.
func ruleOPureSighashFor(c *Ctx, forkid bool) {
	oCommon(c, oEngine(c), "O-pure")
	own := []string{"CalcInputPreimage", "PreviousOutHash", "SequenceHash", "OutputsHash"}
	other := "CalcInputPreimageLegacy"
	if !forkid {
		own = []string{"CalcInputPreimageLegacy"}
		other = "CalcInputPreimage#"
	}
	for _, n := range own {
		rulePureParam(c, "O-pure", "", "*Tx", n, 0, nil)
	}
	rulePureParam(c, "O-pure", "", "*Tx", "CalcInputSignatureHash", 0, func(w *OWrite) (bool, string) {
		site := w.Site + " " + w.Via
		if forkid && strings.Contains(site, "CalcInputPreimageLegacy") {
			return true, "write inside the legacy builder: decided by C03's check"
		}
		if !forkid && (strings.Contains(site, ").CalcInputPreimage#") || strings.Contains(site, ").CalcInputPreimage ") || strings.HasSuffix(w.Via, ").CalcInputPreimage")) {
			return true, "write inside the FORKID builder: decided by C02's check"
		}
		_ = other
		return false, ""
	})
}

func ruleOPureSighash(c *Ctx) {
	oCommon(c, oEngine(c), "O-pure")
	for _, n := range []string{"CalcInputPreimage", "CalcInputPreimageLegacy", "CalcInputSignatureHash", "PreviousOutHash", "SequenceHash", "OutputsHash"} {
		rulePureParam(c, "O-pure", "", "*Tx", n, 0, nil)
	}
}

// engineFieldsReadOnly: "" when every field of the struct type holds no reference and, throughout the module, is
// stored only through a freshly allocated struct and otherwise only loaded.
func engineFieldsReadOnly(c *Ctx, t types.Type, st *types.Struct) string {
	var valueOnly func(t types.Type, depth int) bool
	valueOnly = func(t types.Type, depth int) bool {
		if depth > 4 {
			return false
		}
		switch u := t.Underlying().(type) {
		case *types.Basic:
			return u.Kind() != types.UnsafePointer
		case *types.Array:
			return valueOnly(u.Elem(), depth+1)
		case *types.Struct:
			for i := 0; i < u.NumFields(); i++ {
				if !valueOnly(u.Field(i).Type(), depth+1) {
					return false
				}
			}
			return true
		}
		return false
	}
	for i := 0; i < st.NumFields(); i++ {
		if !valueOnly(st.Field(i).Type(), 0) {
			return "field " + st.Field(i).Name() + " holds a reference"
		}
	}
	for _, pk := range c.P.ScopePkgs() {
		for _, fn := range pkgFunctions(c.P, pk.PkgPath) {
			for _, b := range fn.Blocks {
				for _, ins := range b.Instrs {
					fa, ok := ins.(*ssa.FieldAddr)
					if !ok || !types.Identical(derefType(fa.X.Type()), t) || fa.Referrers() == nil {
						continue
					}
					_, fresh := fa.X.(*ssa.Alloc)
					for _, r := range *fa.Referrers() {
						switch x := r.(type) {
						case *ssa.UnOp, *ssa.DebugRef:
						case *ssa.Store:
							if x.Addr != ssa.Value(fa) || !fresh {
								return "field " + fieldName(fa.X.Type(), fa.Field) + " is written in " + funcName(fn) + " on an engine that may be shared"
							}
						case *ssa.FieldAddr:
							// a field of a struct-valued field: the same rules one level down
							if x.Referrers() != nil {
								for _, r2 := range *x.Referrers() {
									switch y := r2.(type) {
									case *ssa.UnOp, *ssa.DebugRef:
									case *ssa.Store:
										if y.Addr != ssa.Value(x) || !fresh {
											return "field " + fieldName(fa.X.Type(), fa.Field) + " is written in " + funcName(fn) + " on an engine that may be shared"
										}
									default:
										return "the address of part of field " + fieldName(fa.X.Type(), fa.Field) + " is handed on in " + funcName(fn)
									}
								}
							}
						default:
							return "the address of field " + fieldName(fa.X.Type(), fa.Field) + " is handed on in " + funcName(fn) + " (a write through it would be shared)"
						}
					}
				}
			}
		}
	}
	return ""
}
