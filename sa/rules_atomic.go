package main

// L-atomic (C18): one operation, one critical section. "Every read returns a value that some write actually
// stored" needs more than the absence of data races: an update that takes the object's lock, releases it and
// takes it again (directly, in a loop, or by calling another locking method of the same object) lets readers
// see the state in between - an emptied or half-written quote - which no caller ever stored. For every method
// of a type that carries a mutex the rule counts, on each path, the acquisitions of the receiver's own mutex:
// Lock/RLock on the receiver's mutex field and calls of methods on the same receiver that acquire it. More than
// one on a path (or one inside a loop) is a split update. Decided on the CFG, for every schedule.

import (
	"go/token"
	"go/types"

	"golang.org/x/tools/go/ssa"
)

func ruleLAtomic(c *Ctx) {
	ms := mutexStructs(c)
	n := 0
	// acquires[fn]: fn takes the mutex of its receiver (directly or through a method of the same receiver)
	memo := map[*ssa.Function]int{}
	var acquires func(fn *ssa.Function) bool
	isAcquire := func(fn *ssa.Function, ins ssa.Instruction) bool {
		ci, ok := ins.(ssa.CallInstruction)
		if !ok || len(fn.Params) == 0 {
			return false
		}
		if _, isDefer := ins.(*ssa.Defer); isDefer {
			return false
		}
		cm := ci.Common()
		sc := cm.StaticCallee()
		if sc == nil || len(cm.Args) == 0 {
			return false
		}
		recv := fn.Params[0]
		if sc.Pkg != nil && sc.Pkg.Pkg.Path() == "sync" && (sc.Name() == "Lock" || sc.Name() == "RLock") {
			fa, ok := cm.Args[0].(*ssa.FieldAddr)
			return ok && fa.X == ssa.Value(recv)
		}
		if sc.Signature.Recv() != nil && cm.Args[0] == ssa.Value(recv) && len(sc.Blocks) > 0 {
			return acquires(sc)
		}
		return false
	}
	acquires = func(fn *ssa.Function) bool {
		switch memo[fn] {
		case 1:
			return true
		case 2, 3:
			return false
		}
		memo[fn] = 3
		res := false
		for _, b := range fn.Blocks {
			for _, ins := range b.Instrs {
				if isAcquire(fn, ins) {
					res = true
				}
			}
		}
		memo[fn] = 2
		if res {
			memo[fn] = 1
		}
		return res
	}
	for named := range ms {
		for _, recvT := range []types.Type{named, types.NewPointer(named)} {
			mset := c.P.SSA.MethodSets.MethodSet(recvT)
			for i := 0; i < mset.Len(); i++ {
				fn := c.P.SSA.MethodValue(mset.At(i))
				if fn == nil || len(fn.Blocks) == 0 || fn.Synthetic != "" {
					continue
				}
				if _, isPtr := recvT.(*types.Pointer); !isPtr {
					continue
				}
				type ev struct {
					b   *ssa.BasicBlock
					idx int
					pos token.Pos
				}
				var evs []ev
				for _, b := range fn.Blocks {
					for k, ins := range b.Instrs {
						if isAcquire(fn, ins) {
							evs = append(evs, ev{b, k, ins.Pos()})
						}
					}
				}
				if len(evs) == 0 {
					continue
				}
				n++
				key := named.Obj().Name() + "." + fn.Name()
				problem := ""
				var at token.Pos
				for _, a := range evs {
					for _, b2 := range evs {
						switch {
						case a == b2:
							// the same acquisition reached again: it sits in a loop
							if blockReaches(a.b, a.b, nil) {
								problem, at = "it takes the lock once per iteration of a loop", a.pos
							}
						case a.b == b2.b && a.idx < b2.idx, a.b != b2.b && blockReaches(a.b, b2.b, nil):
							problem, at = "it takes the lock again after releasing it ("+c.P.Pos(a.pos)+", then "+c.P.Pos(b2.pos)+")", b2.pos
						}
					}
				}
				if problem != "" {
					c.Fail("L-atomic", key, at, key+" does not do its work in one critical section: "+problem+"; another goroutine can observe the object between the two - a state no caller stored")
				} else {
					c.OK("L-atomic", key, fn.Pos(), "at most one acquisition of the receiver's mutex on every path")
				}
			}
		}
	}
	c.MinInstances("L-atomic", n, 8)
}
