package main

// O-codec (C13; C04 and C06 through the script code): what a codec function hands back is its own. The
// script Unparse returns, the bytes EncodeParts / PushDataPrefix / the hex and ASM readers build are newly
// allocated by the call - they do not live in the parser object, in a package-level buffer or in any other
// memory that a later call writes again - and a tokeniser's result refers to nothing but new memory and the
// script it was given. Decided from the ownership summaries (engine O): may-alias facts of the code, hence
// for every sequence of calls.

import (
	"fmt"
	"go/token"
	"os"
	"sort"
	"strings"
)

type oCodecSpec struct {
	pkg, recv, name string
	result          int
	allowParams     []int // parameters (receiver = 0) the result may refer to
	allowGlobals    []string
}

var oCodecSpecs = []oCodecSpec{
	{"bscript/interpreter", "*DefaultOpcodeParser", "Unparse", 0, nil, nil},
	// each parsed opcode carries a copy of its row of the dispatch table (written by nothing: rule T-op1 reads it as a constant table)
	{"bscript/interpreter", "*DefaultOpcodeParser", "Parse", 0, []int{1}, []string{"=G:interpreter.opcodeArray"}},
	{"bscript/interpreter", "*ParsedOpcode", "bytes", 0, []int{0}, nil},
	{"bscript", "", "EncodeParts", 0, nil, nil},
	{"bscript", "", "PushDataPrefix", 0, nil, nil},
	{"bscript", "", "DecodeParts", 0, []int{0}, nil},
	{"bscript", "", "NewFromHexString", 0, nil, nil},
	{"bscript", "", "NewFromASM", 0, nil, nil},
	{"bscript", "", "NewFromBytes", 0, []int{0}, nil},
	{"bscript", "*Script", "ToASM", 0, nil, nil},
}

func ruleOCodec(c *Ctx) {
	e := oEngine(c)
	oCommon(c, e, "O-codec")
	n := 0
	for _, sp := range oCodecSpecs {
		fn := c.P.Func(sp.pkg, sp.recv, sp.name)
		label := strings.TrimPrefix(sp.recv, "*")
		if label != "" {
			label += "."
		}
		label += sp.name
		if fn == nil {
			c.Undecided("O-codec", label, token.NoPos, "function not found")
			continue
		}
		sum := e.Sums[fn]
		if sum == nil || sp.result >= len(sum.Results) {
			c.Undecided("O-codec", label, fn.Pos(), "no ownership summary")
			continue
		}
		n++
		allowed := func(ap string) bool {
			if strings.HasPrefix(ap, "FRESH|") {
				return true
			}
			root, _ := apSplit(ap)
			for _, k := range sp.allowParams {
				if root == fmt.Sprintf("P%d", k) {
					return true
				}
			}
			for _, g := range sp.allowGlobals {
				if root == g {
					return true
				}
			}
			// constants of the program (string and composite literals) are never written
			return strings.HasPrefix(root, "C:")
		}
		var bad []string
		for ap := range sum.Results[sp.result] {
			if !allowed(ap) {
				bad = append(bad, shortRoot(ap))
			}
		}
		for rel, hs := range sum.ResultHeap[sp.result] {
			for _, h := range hs.sorted() {
				if !allowed(h) {
					bad = append(bad, rel+" <- "+shortRoot(h))
				}
			}
		}
		sort.Strings(bad)
		what := "newly allocated"
		if len(sp.allowParams) > 0 {
			what = "new memory or the data it was given"
		}
		c.Check(len(bad) == 0, "O-codec", label+"/result", fn.Pos(), "the result refers only to "+what,
			fmt.Sprintf("%s may hand back memory that is not its own (%v): a later call that writes it again changes a result already returned", label, bad))
		if debugOCodec {
			fmt.Printf("O-codec %s results=%v heap=%v\n", label, sum.Results[sp.result].sorted(), sum.ResultHeap[sp.result])
		}
	}
	c.MinInstances("O-codec", n, len(oCodecSpecs))
}

var debugOCodec = os.Getenv("VERIF_DEBUG") == "ocodec"
