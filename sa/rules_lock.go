package main

// T-lock (C05, locktime policy): what OP_CHECKLOCKTIMEVERIFY and OP_CHECKSEQUENCEVERIFY decide once their flag
// prologue (rule T-nop) lets them run, as tables.
//   verifyLockTime(tx, threshold, n): satisfied iff tx and n lie on the same side of the threshold and n <= tx.
//   CLTV: n < 0 -> ErrNegativeLockTime; else verifyLockTime(tx.LockTime, 500000000, n); a final input
//         (sequence 0xffffffff) -> ErrUnsatisfiedLockTime.
//   CSV:  n < 0 -> ErrNegativeLockTime; disable bit (1<<31) set in n -> success; tx version < 2 -> unsatisfied;
//         disable bit set in the input's sequence -> unsatisfied; else verifyLockTime on both values masked with
//         0x0040ffff against the type bit 1<<22.
// The handlers' path conditions are folded on grids of the quantities they read; no go-bt code runs.

import (
	"fmt"
	"go/constant"
	"go/token"
	"sort"
	"strings"

	"golang.org/x/tools/go/ssa"
)

type lockEval struct {
	fn  *ssa.Function
	asg map[string]int64 // n (stack number), lock (tx.LockTime), seq (input sequence), ver (tx version), p0.. (parameters)
}

func (e *lockEval) num(v ssa.Value, depth int) (int64, bool) {
	if depth > 14 {
		return 0, false
	}
	switch x := v.(type) {
	case *ssa.Const:
		if x.Value == nil {
			return 0, false
		}
		switch x.Value.Kind() {
		case constant.Int:
			n, ok := constant.Int64Val(x.Value)
			if !ok {
				if u, ok2 := constant.Uint64Val(x.Value); ok2 {
					return int64(u), true
				}
			}
			return n, ok
		case constant.Bool:
			return b2i(constant.BoolVal(x.Value)), true
		}
	case *ssa.Parameter:
		for i, p := range e.fn.Params {
			if p == x {
				n, ok := e.asg[fmt.Sprintf("p%d", i)]
				return n, ok
			}
		}
	case *ssa.Convert:
		return e.num(x.X, depth+1)
	case *ssa.ChangeType:
		return e.num(x.X, depth+1)
	case *ssa.Phi:
		// a boolean merged from a short circuit: decided by evaluating the conditions that choose the edge
		return e.phi(x, depth+1)
	case *ssa.UnOp:
		switch x.Op {
		case token.NOT:
			a, ok := e.num(x.X, depth+1)
			return 1 - a, ok
		case token.MUL:
			t := atomName(newTermEnv().Term(x))
			switch {
			case strings.HasSuffix(t, ".tx.LockTime"):
				n, ok := e.asg["lock"]
				return n, ok
			case strings.HasSuffix(t, ".SequenceNumber"):
				n, ok := e.asg["seq"]
				return n, ok
			case strings.HasSuffix(t, ".tx.Version"):
				n, ok := e.asg["ver"]
				return n, ok
			}
		}
	case *ssa.Call:
		sc := x.Call.StaticCallee()
		if sc != nil && sc.Signature.Recv() != nil && namedOf(sc.Signature.Recv().Type()) == "scriptNumber" {
			n, have := e.asg["n"]
			if !have {
				return 0, false
			}
			switch sc.Name() {
			case "Int64", "Int32":
				return n, true
			case "LessThanInt", "GreaterThanInt", "EqualInt":
				o, ok := e.num(x.Call.Args[1], depth+1)
				if !ok {
					return 0, false
				}
				switch sc.Name() {
				case "LessThanInt":
					return b2i(n < o), true
				case "GreaterThanInt":
					return b2i(n > o), true
				}
				return b2i(n == o), true
			}
		}
	case *ssa.BinOp:
		if k, isK := x.Y.(*ssa.Const); isK && k.Value == nil {
			// err != nil of the peek / the number decoding: absent on the paths of interest
			if _, isEx := x.X.(*ssa.Extract); isEx {
				return b2i(x.Op == token.EQL), true
			}
			// the verdict of verifyLockTime (decided as a table of its own): nil iff satisfied
			if call, isCall := x.X.(*ssa.Call); isCall && call.Call.StaticCallee() != nil && call.Call.StaticCallee().Name() == "verifyLockTime" && len(call.Call.Args) == 3 {
				a0, ok0 := e.num(call.Call.Args[0], depth+1)
				a1, ok1 := e.num(call.Call.Args[1], depth+1)
				a2, ok2 := e.num(call.Call.Args[2], depth+1)
				if !ok0 || !ok1 || !ok2 {
					return 0, false
				}
				satisfied := (a0 < a1) == (a2 < a1) && a2 <= a0
				return b2i(satisfied == (x.Op == token.EQL)), true
			}
			return 0, false
		}
		a, ok1 := e.num(x.X, depth+1)
		b, ok2 := e.num(x.Y, depth+1)
		if !ok1 || !ok2 {
			return 0, false
		}
		switch x.Op {
		case token.ADD:
			return a + b, true
		case token.SUB:
			return a - b, true
		case token.AND:
			return a & b, true
		case token.OR:
			return a | b, true
		case token.LSS:
			return b2i(a < b), true
		case token.LEQ:
			return b2i(a <= b), true
		case token.GTR:
			return b2i(a > b), true
		case token.GEQ:
			return b2i(a >= b), true
		case token.EQL:
			return b2i(a == b), true
		case token.NEQ:
			return b2i(a != b), true
		}
	}
	return 0, false
}

// phi: the value of a merged boolean: the edge is chosen by the branch outcomes of its predecessors, which are
// evaluated in turn (short-circuit && / ||).
func (e *lockEval) phi(ph *ssa.Phi, depth int) (int64, bool) {
	// walk from the function's entry following evaluated branches until the phi's block is entered
	b := e.fn.Blocks[0]
	var prev *ssa.BasicBlock
	for steps := 0; steps < 64; steps++ {
		if b == ph.Block() && prev != nil {
			for i, p := range b.Preds {
				if p == prev {
					return e.num(ph.Edges[i], depth+1)
				}
			}
			return 0, false
		}
		last := b.Instrs[len(b.Instrs)-1]
		switch t := last.(type) {
		case *ssa.If:
			if c, isPhi := t.Cond.(*ssa.Phi); isPhi && c == ph {
				return 0, false
			}
			v, ok := e.num(t.Cond, depth+1)
			if !ok {
				return 0, false
			}
			prev = b
			if v != 0 {
				b = b.Succs[0]
			} else {
				b = b.Succs[1]
			}
		case *ssa.Jump:
			prev, b = b, b.Succs[0]
		default:
			return 0, false
		}
	}
	return 0, false
}

// outcome of a handler under e.asg: follows the evaluated branches from the entry to a return.
func (e *lockEval) run(c *Ctx) string {
	b := e.fn.Blocks[0]
	for steps := 0; steps < 64; steps++ {
		switch t := b.Instrs[len(b.Instrs)-1].(type) {
		case *ssa.If:
			v, ok := e.num(t.Cond, 0)
			if !ok {
				return "a condition the rule cannot fold: " + shorten(atomName(newTermEnv().Term(t.Cond)), 70)
			}
			if v != 0 {
				b = b.Succs[0]
			} else {
				b = b.Succs[1]
			}
		case *ssa.Jump:
			b = b.Succs[0]
		case *ssa.Return:
			r := t.Results[len(t.Results)-1]
			if k, isK := r.(*ssa.Const); isK && k.Value == nil {
				return "ok"
			}
			rt := newTermEnv().Term(r)
			if rt.K == "call" && strings.Contains(rt.Name, "errs.NewError") && len(rt.Args) > 0 && rt.Args[0].K == "const" && rt.Args[0].C != nil {
				v, _ := constant.Int64Val(constant.ToInt(rt.Args[0].C))
				return fmt.Sprintf("error %d", v)
			}
			// the verdict of verifyLockTime handed on (directly, or through err tested non-nil)
			var call *ssa.Call
			if cl, isCall := r.(*ssa.Call); isCall {
				call = cl
			}
			if call != nil && call.Call.StaticCallee() != nil && call.Call.StaticCallee().Name() == "verifyLockTime" {
				var as []string
				for _, a := range call.Call.Args {
					v, ok := e.num(a, 0)
					if !ok {
						return "verifyLockTime with an argument the rule cannot fold"
					}
					as = append(as, fmt.Sprint(v))
				}
				return "verifyLockTime(" + strings.Join(as, ",") + ")"
			}
			return "returns " + shorten(atomName(rt), 60)
		default:
			return "unexpected control flow"
		}
	}
	return "too many steps"
}

func ruleTLock(c *Ctx) {
	eUnsat := pkgConst(c, "bscript/interpreter/errs", "ErrUnsatisfiedLockTime")
	eNeg := pkgConst(c, "bscript/interpreter/errs", "ErrNegativeLockTime")
	const T = 500000000
	n := 0
	// verifyLockTime
	if fn := c.P.Func("bscript/interpreter", "", "verifyLockTime"); fn != nil {
		n++
		var bad []string
		cells := 0
		for _, th := range []int64{T, 1 << 22} {
			vals := []int64{0, 1, th - 1, th, th + 1, th + 5}
			for _, txl := range vals {
				for _, l := range vals {
					cells++
					want := "ok"
					if (txl < th) != (l < th) || l > txl {
						want = fmt.Sprintf("error %d", eUnsat)
					}
					e := &lockEval{fn: fn, asg: map[string]int64{"p0": txl, "p1": th, "p2": l}}
					if got := e.run(c); got != want {
						bad = append(bad, fmt.Sprintf("tx %d, threshold %d, required %d: [%s], the rule says [%s]", txl, th, l, got, want))
					}
				}
			}
		}
		sort.Strings(bad)
		c.Covered["T-lock:verifyLockTime:cells"] = cells
		c.Check(len(bad) == 0, "T-lock", "verifyLockTime", fn.Pos(), fmt.Sprintf("satisfied iff both values are on the same side of the threshold and required <= tx (%d cells)", cells), "verifyLockTime: "+strings.Join(first(bad, 2), "; "))
	} else {
		c.Undecided("T-lock", "verifyLockTime", token.NoPos, "not found")
	}
	// the two handlers, past their prologue: the flag is set and the era is pre-genesis. The prologue's own
	// conditions (hasFlag, afterGenesis, tx == nil) are given the values that let the opcode run.
	type hcase struct {
		asg  map[string]int64
		want string
	}
	run := func(name string, cases []hcase) {
		fn := c.P.Func("bscript/interpreter", "", name)
		if fn == nil {
			c.Undecided("T-lock", name, token.NoPos, "not found")
			return
		}
		n++
		// entry: the block reached when the prologue lets the opcode run = the first block that reads the stack
		var start *ssa.BasicBlock
		for _, b := range fn.DomPreorder() {
			for _, ins := range b.Instrs {
				if call, ok := ins.(*ssa.Call); ok {
					if sc := call.Call.StaticCallee(); sc != nil && sc.Name() == "PeekByteArray" && start == nil {
						start = b
					}
				}
			}
		}
		if start == nil {
			c.Undecided("T-lock", name, fn.Pos(), "the handler does not read the stack top with PeekByteArray")
			return
		}
		var bad []string
		for _, hc := range cases {
			e := &lockEval{fn: fn, asg: hc.asg}
			// run from the stack read
			sub := *e
			got := func() string {
				b := start
				for steps := 0; steps < 64; steps++ {
					switch t := b.Instrs[len(b.Instrs)-1].(type) {
					case *ssa.If:
						v, ok := sub.num(t.Cond, 0)
						if !ok {
							return "a condition the rule cannot fold: " + shorten(atomName(newTermEnv().Term(t.Cond)), 70)
						}
						if v != 0 {
							b = b.Succs[0]
						} else {
							b = b.Succs[1]
						}
					case *ssa.Jump:
						b = b.Succs[0]
					case *ssa.Return:
						save := sub.fn.Blocks
						_ = save
						// reuse run()'s return reading by a one-block walk
						r := t.Results[len(t.Results)-1]
						if k, isK := r.(*ssa.Const); isK && k.Value == nil {
							return "ok"
						}
						rt := newTermEnv().Term(r)
						if rt.K == "call" && strings.Contains(rt.Name, "errs.NewError") && len(rt.Args) > 0 && rt.Args[0].K == "const" && rt.Args[0].C != nil {
							v, _ := constant.Int64Val(constant.ToInt(rt.Args[0].C))
							return fmt.Sprintf("error %d", v)
						}
						// err of verifyLockTime: returned directly, or through `if err = verifyLockTime(..); err != nil { return err }`
						var call *ssa.Call
						switch y := r.(type) {
						case *ssa.Call:
							call = y
						}
						if call != nil && call.Call.StaticCallee() != nil && call.Call.StaticCallee().Name() == "verifyLockTime" {
							var as []string
							for _, a := range call.Call.Args {
								v, ok := sub.num(a, 0)
								if !ok {
									return "verifyLockTime with an argument the rule cannot fold"
								}
								as = append(as, fmt.Sprint(v))
							}
							return "verifyLockTime(" + strings.Join(as, ",") + ")"
						}
						return "returns " + shorten(atomName(rt), 60)
					default:
						return "unexpected control flow"
					}
				}
				return "too many steps"
			}()
			if got != hc.want {
				bad = append(bad, fmt.Sprintf("%v: [%s], the rule says [%s]", hc.asg, got, hc.want))
			}
		}
		sort.Strings(bad)
		c.Covered["T-lock:"+name+":cells"] = len(cases)
		c.Check(len(bad) == 0, "T-lock", name, fn.Pos(), fmt.Sprintf("decision past the prologue as specified on %d cells", len(cases)), name+": "+strings.Join(first(bad, 2), "; "))
	}
	// CLTV: err of verifyLockTime is tested, so its two verdicts are two cells: the rule evaluates the call's
	// arguments and takes the verdict from the table above
	verdict := func(txl, th, l int64) bool { return (txl < th) == (l < th) && l <= txl }
	var cltv []hcase
	for _, nn := range []int64{-1, 0, 1, T - 1, T, T + 1} {
		for _, lock := range []int64{0, 1, T - 1, T, T + 1} {
			for _, seq := range []int64{0, 0xfffffffe, 0xffffffff} {
				want := "ok"
				switch {
				case nn < 0:
					want = fmt.Sprintf("error %d", eNeg)
				case !verdict(lock, T, nn):
					want = fmt.Sprintf("verifyLockTime(%d,%d,%d)", lock, int64(T), nn)
				case seq == 0xffffffff:
					want = fmt.Sprintf("error %d", eUnsat)
				}
				cltv = append(cltv, hcase{map[string]int64{"n": nn, "lock": lock, "seq": seq, "ver": 2}, want})
			}
		}
	}
	const dis, typ, mask = int64(1) << 31, int64(1) << 22, int64(0x0040ffff)
	var csv []hcase
	for _, nn := range []int64{-1, 0, 1, typ, typ | 5, dis, dis | 1, 0xffff, 0x10000} {
		for _, seq := range []int64{0, 5, typ | 5, dis, dis | 7, 0xffffffff} {
			for _, ver := range []int64{1, 2} {
				want := ""
				switch {
				case nn < 0:
					want = fmt.Sprintf("error %d", eNeg)
				case nn&dis != 0:
					want = "ok"
				case ver < 2:
					want = fmt.Sprintf("error %d", eUnsat)
				case seq&dis != 0:
					want = fmt.Sprintf("error %d", eUnsat)
				default:
					want = fmt.Sprintf("verifyLockTime(%d,%d,%d)", seq&mask, typ, nn&mask)
				}
				csv = append(csv, hcase{map[string]int64{"n": nn, "seq": seq, "ver": ver}, want})
			}
		}
	}
	run("opcodeCheckSequenceVerify", csv)
	run("opcodeCheckLockTimeVerify", cltv)
	c.MinInstances("T-lock", n, 2)
}

func first(ss []string, k int) []string {
	if len(ss) > k {
		return append(append([]string{}, ss[:k]...), fmt.Sprintf("(and %d more)", len(ss)-k))
	}
	return ss
}
