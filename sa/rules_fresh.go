package main

// L-fresh: a decoder that builds a list of objects allocates one object per element. Any pointer
// appended to a slice inside a loop must point to an allocation made inside that loop; an allocation
// hoisted out of the loop makes every element of the result the same object (all entries equal the
// last one decoded). Checked for every loop of the library packages.

import (
	"go/token"

	"golang.org/x/tools/go/ssa"
)

func ruleLFresh(c *Ctx) {
	appends, loops := 0, 0
	for _, pk := range c.P.ScopePkgs() {
		for _, fn := range pkgFunctions(c.P, pk.PkgPath) {
			for _, h := range fn.Blocks {
				if !isLoopHeader(h) {
					continue
				}
				loops++
				var latches []*ssa.BasicBlock
				for _, p := range h.Preds {
					if h.Dominates(p) {
						latches = append(latches, p)
					}
				}
				in := loopBlocks(h, latches)
				for b := range in {
					for _, ins := range b.Instrs {
						call, ok := ins.(*ssa.Call)
						if !ok {
							continue
						}
						bi, ok := call.Call.Value.(*ssa.Builtin)
						if !ok || bi.Name() != "append" {
							continue
						}
						for _, v := range appendedValues(call) {
							al, isAl := v.(*ssa.Alloc)
							if !isAl || !al.Heap {
								continue
							}
							appends++
							key := funcName(fn) + "/append-of-" + al.Comment
							pos := call.Pos()
							if pos == token.NoPos {
								pos = fn.Pos()
							}
							c.Check(in[al.Block()], "L-fresh", key, pos, "the object appended is allocated inside the loop: one object per element",
								funcName(fn)+" appends a pointer to an object allocated once outside the loop ("+al.Comment+"): every element of the list is the same object and ends up equal to the last one")
						}
					}
				}
			}
		}
	}
	c.Covered["L-fresh:loops"] = loops
	c.Covered["L-fresh:pointer_appends_in_loops"] = appends
	c.MinInstances("L-fresh", appends, 4)
}
