package main

// T-fmt (C17): writer / regular expression / reader agreement for the BIP276
// text format, and the BIP's field order.

import (
	"fmt"
	"go/ast"
	"go/constant"
	"go/token"
	"math/big"
	"regexp/syntax"
	"sort"
	"strings"

	"golang.org/x/tools/go/ssa"
)

type fmtVerb struct {
	verb  string // e.g. "%.2x"
	field string // argument field name
}

// sprintfVerbs: the first fmt.Sprintf call with a constant format in fn.
func sprintfVerbs(fn *ssa.Function) ([]fmtVerb, string, *ssa.Call) {
	for _, b := range fn.Blocks {
		for _, ins := range b.Instrs {
			call, ok := ins.(*ssa.Call)
			if !ok {
				continue
			}
			sc := call.Call.StaticCallee()
			if sc == nil || sc.String() != "fmt.Sprintf" {
				continue
			}
			if vs, f := sprintfVerbsOf(call); f != "" {
				return vs, f, call
			}
		}
	}
	return nil, "", nil
}

// sprintfVerbsOf: the verbs of one fmt.Sprintf call with a constant format, with the struct
// fields printed by them.
func sprintfVerbsOf(call *ssa.Call) ([]fmtVerb, string) {
	for once := true; once; once = false {
		{
			k, ok := call.Call.Args[0].(*ssa.Const)
			if !ok || k.Value == nil || k.Value.Kind() != constant.String {
				continue
			}
			format := constant.StringVal(k.Value)
			// variadic args: slice of an alloc'd array with stores of MakeInterface values
			var fields []string
			if sl, ok := call.Call.Args[1].(*ssa.Slice); ok {
				if al, ok := sl.X.(*ssa.Alloc); ok && al.Referrers() != nil {
					byIdx := map[int64]string{}
					for _, r := range *al.Referrers() {
						ia, ok := r.(*ssa.IndexAddr)
						if !ok || ia.Referrers() == nil {
							continue
						}
						idx, _ := constInt(ia.Index)
						for _, rr := range *ia.Referrers() {
							if st, ok := rr.(*ssa.Store); ok {
								v := st.Val
								if mi, ok := v.(*ssa.MakeInterface); ok {
									v = mi.X
								}
								byIdx[idx.Int64()] = valueFieldName(v)
							}
						}
					}
					for i := int64(0); i < int64(len(byIdx)); i++ {
						fields = append(fields, byIdx[i])
					}
				}
			}
			var verbs []fmtVerb
			ai := 0
			for i := 0; i < len(format); i++ {
				if format[i] != '%' {
					continue
				}
				j := i + 1
				for j < len(format) && strings.ContainsRune("0123456789.+-# ", rune(format[j])) {
					j++
				}
				if j >= len(format) {
					break
				}
				if format[j] == '%' {
					i = j
					continue
				}
				f := ""
				if ai < len(fields) {
					f = fields[ai]
				}
				ai++
				verbs = append(verbs, fmtVerb{format[i : j+1], f})
				i = j
			}
			return verbs, format
		}
	}
	return nil, ""
}

// writerPieces: the fields printed into the first result of fn, in order, when that string is
// built from fmt.Sprintf (constant format), hex.EncodeToString(x) (= %x of x) and "+".
func writerPieces(fn *ssa.Function) ([]fmtVerb, string) {
	var ret *ssa.Return
	for _, b := range fn.Blocks {
		if r, ok := b.Instrs[len(b.Instrs)-1].(*ssa.Return); ok {
			if ret != nil {
				return nil, ""
			}
			ret = r
		}
	}
	if ret == nil || len(ret.Results) == 0 {
		return nil, ""
	}
	format := ""
	var pieces func(v ssa.Value, depth int) ([]fmtVerb, bool)
	pieces = func(v ssa.Value, depth int) ([]fmtVerb, bool) {
		if depth > 8 {
			return nil, false
		}
		switch x := v.(type) {
		case *ssa.Const:
			if x.Value != nil && x.Value.Kind() == constant.String {
				format += constant.StringVal(x.Value)
				return nil, true
			}
		case *ssa.BinOp:
			if x.Op == token.ADD {
				l, ok1 := pieces(x.X, depth+1)
				r, ok2 := pieces(x.Y, depth+1)
				return append(l, r...), ok1 && ok2
			}
		case *ssa.Call:
			sc := x.Call.StaticCallee()
			if sc == nil {
				return nil, false
			}
			switch sc.String() {
			case "fmt.Sprintf":
				vs, f := sprintfVerbsOf(x)
				format += f
				return vs, f != ""
			case "encoding/hex.EncodeToString":
				format += "%x"
				return []fmtVerb{{"%x", valueFieldName(x.Call.Args[0])}}, true
			}
		}
		return nil, false
	}
	vs, ok := pieces(ret.Results[0], 0)
	if !ok {
		return nil, ""
	}
	return vs, format
}

// valueFieldName: the struct field a value was read from (through loads / Field).
func valueFieldName(v ssa.Value) string {
	switch x := v.(type) {
	case *ssa.UnOp:
		if fa, ok := x.X.(*ssa.FieldAddr); ok {
			return fieldName(fa.X.Type(), fa.Field)
		}
	case *ssa.Field:
		return fieldName(x.X.Type(), x.Field)
	case *ssa.ChangeType:
		return valueFieldName(x.X)
	case *ssa.Convert:
		return valueFieldName(x.X)
	}
	return "?"
}

type reGroup struct {
	class string // normalised character class, e.g. "hex", "digit", "any"
	min   int
	max   int
}

func regexGroups(pattern string) ([]reGroup, error) {
	re, err := syntax.Parse(pattern, syntax.Perl)
	if err != nil {
		return nil, err
	}
	var out []reGroup
	var walk func(r *syntax.Regexp)
	walk = func(r *syntax.Regexp) {
		if r.Op == syntax.OpCapture {
			out = append(out, describeGroup(r.Sub[0]))
			return
		}
		for _, s := range r.Sub {
			walk(s)
		}
	}
	walk(re)
	return out, nil
}

// regexTopShape renders the top-level sequence of the expression.
func regexTopShape(pattern string) string {
	re, err := syntax.Parse(pattern, syntax.Perl)
	if err != nil {
		return "unparseable"
	}
	subs := []*syntax.Regexp{re}
	if re.Op == syntax.OpConcat {
		subs = re.Sub
	}
	var out []string
	for _, r := range subs {
		switch r.Op {
		case syntax.OpBeginText:
			out = append(out, "^")
		case syntax.OpEndText:
			out = append(out, "$")
		case syntax.OpCapture:
			out = append(out, "( )")
		case syntax.OpLiteral:
			out = append(out, "lit("+string(r.Rune)+")")
		default:
			out = append(out, r.Op.String())
		}
	}
	return strings.Join(out, " ")
}

func describeGroup(r *syntax.Regexp) reGroup {
	g := reGroup{min: 1, max: 1}
	inner := r
	switch r.Op {
	case syntax.OpRepeat:
		g.min, g.max = r.Min, r.Max
		inner = r.Sub[0]
	case syntax.OpPlus:
		g.min, g.max = 1, -1
		inner = r.Sub[0]
	case syntax.OpStar:
		g.min, g.max = 0, -1
		inner = r.Sub[0]
	case syntax.OpQuest:
		g.min, g.max = 0, 1
		inner = r.Sub[0]
	case syntax.OpConcat:
		g.class = "concat"
		return g
	}
	// non-greedy wrappers keep Op the same with Flags; character class
	switch inner.Op {
	case syntax.OpCharClass:
		g.class = classOf(inner.Rune)
	case syntax.OpAnyCharNotNL, syntax.OpAnyChar:
		g.class = "any"
	default:
		g.class = inner.Op.String()
	}
	return g
}

func classOf(rs []rune) string {
	s := ""
	for i := 0; i+1 < len(rs); i += 2 {
		s += fmt.Sprintf("%c-%c", rs[i], rs[i+1])
	}
	switch s {
	case "0-9":
		return "digit"
	case "0-9A-Fa-f":
		return "hex"
	case "0-9a-f":
		return "hexlower"
	}
	return s
}

func ruleTFmt(c *Ctx) {
	pk := c.P.Pkgs[modPath+"/bscript"]
	// the writer is the text EncodeBIP276 returns, read through whatever helpers build it; the reader is DecodeBIP276
	writer := c.P.Func("bscript", "", "EncodeBIP276")
	reader := c.P.Func("bscript", "", "DecodeBIP276")
	if writer == nil || reader == nil {
		c.Undecided("T-fmt", "anchors", token.NoPos, "EncodeBIP276 / DecodeBIP276 not found")
		return
	}
	pieces, okText := textReturned(writer, 0, "ERROR")
	if !okText {
		c.Undecided("T-fmt", "writer/format", writer.Pos(), "the text returned by EncodeBIP276 is not built from fmt.Sprintf with a constant format, hex.EncodeToString and concatenation (writer idiom not recognised)")
		return
	}
	// payload pieces, then the checksum: eight hex digits of the first four bytes of SHA256d(payload)
	var verbs []fmtVerb
	format := ""
	var payload []sxPiece
	checksumOK := false
	for i, p := range pieces {
		switch p.kind {
		case "lit":
			format += p.text
			payload = append(payload, p)
		case "verb":
			format += p.text
			verbs = append(verbs, fmtVerb{p.text, p.field})
			payload = append(payload, p)
		case "hex":
			checksumOK = i == len(pieces)-1 && p.b == "sha256d(bytes("+sxString(payload)+"))[0:4]"
		}
	}
	c.Check(checksumOK, "T-fmt", "writer/checksum", writer.Pos(), "the text ends with the hex of the first four bytes of SHA256d over everything before it",
		"the text returned by EncodeBIP276 does not end with hex(SHA256d(payload)[0:4]) of its own payload: "+shorten(sxString(pieces), 300))
	bip276PayloadText = sxString(payload)
	if len(verbs) == 0 {
		c.Undecided("T-fmt", "writer/format", writer.Pos(), "the text returned by EncodeBIP276 prints no field")
		return
	}
	// regex pattern: the package-level regexp.MustCompile constant used by the reader
	pattern := ""
	var patPos token.Pos
	for _, f := range pk.Syntax {
		ast.Inspect(f, func(n ast.Node) bool {
			ce, ok := n.(*ast.CallExpr)
			if !ok || len(ce.Args) != 1 {
				return true
			}
			if se, ok := ce.Fun.(*ast.SelectorExpr); ok && se.Sel.Name == "MustCompile" {
				if tv, ok := pk.TypesInfo.Types[ce.Args[0]]; ok && tv.Value != nil && tv.Value.Kind() == constant.String {
					p := constant.StringVal(tv.Value)
					if strings.Contains(p, ":") {
						pattern, patPos = p, ce.Pos()
					}
				}
			}
			return true
		})
	}
	groups, err := regexGroups(pattern)
	if pattern == "" || err != nil {
		c.Undecided("T-fmt", "reader/regex", reader.Pos(), "constant regular expression of the reader not found or not parseable")
		return
	}
	// whole-text match: ^ group ':' group group group group $ and nothing else
	shape := regexTopShape(pattern)
	c.Check(shape == "^ ( ) lit(:) ( ) ( ) ( ) ( ) $", "T-fmt", "reader/regex-anchored", patPos, "the reader's expression matches the whole text: "+shape,
		"the reader's expression is not of the form ^(prefix):(..)(..)(data)(checksum)$ — it is "+shape+": text before or after a valid encoding would be accepted")
	c.Covered["T-fmt:verbs"] = len(verbs)
	c.Covered["T-fmt:groups"] = len(groups)
	c.Check(len(verbs) == 4 && len(groups) == 5, "T-fmt", "shape", patPos,
		fmt.Sprintf("writer has %d verbs (+ checksum), reader has %d groups", len(verbs), len(groups)),
		fmt.Sprintf("writer format %q has %d verbs but the reader's expression has %d groups (expected 4 payload fields + checksum)", format, len(verbs), len(groups)))
	if len(verbs) != 4 || len(groups) != 5 {
		return
	}
	// reader: what happens with res[k]
	dest := readerGroupUse(reader)
	closureGroupUse(reader, dest)
	// (a) per position: class/width/base agree
	for i := 1; i <= 2; i++ {
		v := verbs[i]
		g := groups[i]
		key := fmt.Sprintf("field%d", i+1)
		okVerb := v.verb == "%.2x" || v.verb == "%02x"
		c.Check(okVerb, "T-fmt", key+"/writer-verb", writer.Pos(), "two lower-case hex digits ("+v.verb+")", "writer prints the field with "+v.verb+", the BIP requires two hex digits")
		classOK := (g.class == "hex" || g.class == "hexlower") && g.min == 2 && g.max == 2
		c.Check(classOK, "T-fmt", key+"/reader-class", patPos, "reader accepts exactly two hex digits",
			fmt.Sprintf("writer emits two HEX digits for %s but the reader's group %d accepts class %q{%d,%d}: values >= 10 (0a..ff) never match", v.field, i+1, g.class, g.min, g.max))
		d := dest[i+1]
		c.Check(d.base == 16, "T-fmt", key+"/reader-base", reader.Pos(), "reader parses the digits base 16",
			fmt.Sprintf("writer emits %s in base 16 but the reader parses group %d with %s (base %d)", v.field, i+1, d.parser, d.base))
		// every value the writer can emit (00..ff) must be inside the parser's range
		rangeOK := true
		switch d.parser {
		case "strconv.ParseInt":
			rangeOK = d.bits == 0 || d.bits >= 9
		case "strconv.ParseUint":
			rangeOK = d.bits == 0 || d.bits >= 8
		}
		c.Check(rangeOK, "T-fmt", key+"/reader-range", reader.Pos(), "the reader's integer parser accepts all of 00..ff",
			fmt.Sprintf("the reader parses group %d with %s bitSize %d: two hex digits reach 255, values outside that bit size are rejected although the writer emits them", i+1, d.parser, d.bits))
		c.Check(d.field == v.field, "T-fmt", key+"/same-field", reader.Pos(), "writer and reader agree that position "+fmt.Sprint(i+1)+" is "+v.field,
			fmt.Sprintf("writer puts %s at position %d but the reader stores group %d into %s: no round trip unless both values are equal", v.field, i+1, i+1, d.field))
	}
	// prefix, data
	c.Check(verbs[0].verb == "%s" && verbs[0].field == "Prefix" && dest[1].field == "Prefix", "T-fmt", "field1/prefix", writer.Pos(), "prefix agrees", "prefix position disagrees between writer and reader")
	c.Check(verbs[3].verb == "%x" && verbs[3].field == "Data" && dest[4].field == "Data" && dest[4].base == 16 && groups[3].class == "hex", "T-fmt", "field4/data", writer.Pos(), "data is hex on both sides", "data field encoding disagrees between writer and reader")
	// checksum: 8 hex digits, compared before success
	c.Check(groups[4].class == "hex" && groups[4].min == 8 && groups[4].max == 8, "T-fmt", "checksum/width", patPos, "checksum group is 8 hex digits", "checksum group is not exactly 8 hex digits")
	checksumGuard(c, reader)
	// (c) BIP order: prefix, version, network, data
	order := []string{verbs[0].field, verbs[1].field, verbs[2].field, verbs[3].field}
	want := []string{"Prefix", "Version", "Network", "Data"}
	c.Check(strings.Join(order, ",") == strings.Join(want, ","), "T-fmt", "writer/bip-order", writer.Pos(), "writer emits prefix, version, network, data as BIP276 specifies",
		fmt.Sprintf("writer emits %v, BIP276 specifies %v", order, want))
	// (e) encoder range guards: "ERROR" exactly when version or network is outside 1..255, decided on
	// a grid of representatives over the function's own conditions (helpers read as part of it)
	if enc := c.P.Func("bscript", "", "EncodeBIP276"); enc != nil {
		paths, err := feasiblePaths(enc, 500)
		if err != nil {
			c.Undecided("T-fmt", "encoder/range", enc.Pos(), err.Error())
			return
		}
		bad := ""
		cells := 0
		bases := condBaseTerms(paths) // the script argument may be spilled to a local: fields are matched by name
		// representatives: the borders of 1..255 and the neighbours of every constant the function
		// compares with (negative values are outside the property and not examined)
		repSet := map[int64]bool{0: true, 1: true, 255: true, 256: true}
		for _, d := range paths {
			for _, pc := range d.Conds {
				cs := map[string]*big.Int{}
				collectConsts(pc.Cond, cs)
				for _, k := range cs {
					for dlt := int64(-1); dlt <= 1; dlt++ {
						if v := k.Int64() + dlt; k.IsInt64() && v >= 0 && v <= 256 {
							repSet[v] = true
						}
					}
				}
			}
		}
		var reps []int64
		for v := range repSet {
			reps = append(reps, v)
		}
		sort.Slice(reps, func(i, j int) bool { return reps[i] < reps[j] })
		for _, ver := range reps {
			for _, net := range reps {
				asg := map[string]*big.Int{}
				for k := range bases {
					switch {
					case strings.HasSuffix(k, ".Version"):
						asg[k] = big.NewInt(ver)
					case strings.HasSuffix(k, ".Network"):
						asg[k] = big.NewInt(net)
					}
				}
				hits, isErr := 0, false
				for _, d := range paths {
					holds := true
					for _, pc := range d.Conds {
						v, ok := evalTerm(pc.Cond, asg)
						if !ok {
							c.Undecided("T-fmt", "encoder/range", enc.Pos(), "EncodeBIP276 decides on something other than version and network: "+atomName(pc.Cond))
							return
						}
						if (v.Sign() != 0) != pc.Truth {
							holds = false
						}
					}
					if !holds || d.EndKind != "return" {
						continue
					}
					hits++
					rt := d.Env.Term(d.Ret.Results[0])
					isErr = rt.K == "const" && rt.C != nil && rt.C.Kind() == constant.String && constant.StringVal(rt.C) == "ERROR"
				}
				cells++
				want := ver < 1 || ver > 255 || net < 1 || net > 255
				if (hits != 1 || isErr != want) && bad == "" {
					bad = fmt.Sprintf("version %d, network %d: refused=%v (paths holding: %d), the two-digit fields hold 1..255", ver, net, isErr, hits)
				}
			}
		}
		c.Covered["T-fmt:encoder_cells"] = cells
		c.Check(bad == "", "T-fmt", "encoder/range", enc.Pos(), fmt.Sprintf("EncodeBIP276 refuses exactly version/network outside 1..255 (%d cells)", cells), "EncodeBIP276 range guards changed: "+bad)
	} else {
		c.Undecided("T-fmt", "encoder/range", token.NoPos, "EncodeBIP276 not found")
	}
}

func keysOf(m map[string]bool) []string {
	var o []string
	for k := range m {
		o = append(o, k)
	}
	return o
}

func lengthAtomsOnField(fn *ssa.Function, field string) map[string]bool {
	out := map[string]bool{}
	for _, b := range fn.Blocks {
		for _, ins := range b.Instrs {
			bo, ok := ins.(*ssa.BinOp)
			if !ok {
				continue
			}
			k, isC := bo.Y.(*ssa.Const)
			if !isC || k.Value == nil || valueFieldName(bo.X) != field {
				continue
			}
			out[bo.Op.String()+" "+k.Value.ExactString()] = true
		}
	}
	return out
}

type groupUse struct {
	parser string
	bits   int // strconv bitSize argument (0 = int), -1 when not a strconv parser
	base   int
	field  string
}

// readerGroupUse: for each res[k], the parser applied and the struct field receiving the result.
func readerGroupUse(fn *ssa.Function) map[int]groupUse {
	out := map[int]groupUse{}
	// with the helpers the reader was split into
	for _, blockInstrs := range [][]ssa.Instruction{viewOf(fn).Instrs} {
		for _, ins := range blockInstrs {
			ia, ok := ins.(*ssa.IndexAddr)
			if !ok {
				continue
			}
			idx, ok := constInt(ia.Index)
			if !ok || ia.Referrers() == nil {
				continue
			}
			for _, r := range *ia.Referrers() {
				ld, ok := r.(*ssa.UnOp)
				if !ok || ld.Referrers() == nil {
					continue
				}
				for _, u := range *ld.Referrers() {
					switch x := u.(type) {
					case *ssa.Store:
						if fa, ok := x.Addr.(*ssa.FieldAddr); ok {
							out[int(idx.Int64())] = groupUse{parser: "direct", base: 0, field: fieldName(fa.X.Type(), fa.Field)}
						}
					case *ssa.Call:
						sc := x.Call.StaticCallee()
						if sc == nil {
							continue
						}
						gu := groupUse{parser: sc.String()}
						if len(sc.Blocks) > 0 && sc.Pkg != nil && strings.HasPrefix(sc.Pkg.Pkg.Path(), modPath) && len(sc.Params) >= 1 {
							// a parsing helper of the module: what it applies to its own first argument
							if inner := helperParse(sc); inner != nil {
								inner.field = resultDestField(x)
								out[int(idx.Int64())] = *inner
								continue
							}
						}
						switch sc.String() {
						case "strconv.Atoi":
							gu.base = 10
						case "encoding/hex.DecodeString":
							gu.base = 16
						case "strconv.ParseInt", "strconv.ParseUint":
							gu.bits = -1
							if len(x.Call.Args) > 2 {
								if bk, ok := x.Call.Args[2].(*ssa.Const); ok {
									if bv, ok := constValInt(bk.Value); ok {
										gu.bits = int(bv.Int64())
									}
								}
							}
							if len(x.Call.Args) > 1 {
								if bk, ok := x.Call.Args[1].(*ssa.Const); ok {
									if bv, ok := constValInt(bk.Value); ok {
										gu.base = int(bv.Int64())
									}
								}
							}
						}
						gu.field = resultDestField(x)
						if gu.field != "" || gu.base != 0 {
							out[int(idx.Int64())] = gu
						}
					}
				}
			}
		}
	}
	return out
}

// closureGroupUse: a function literal of the reader that parses res[i] for its parameter i (the groups slice
// captured) and returns the parsed value: each call of it with a constant i is that parser applied to group i.
func closureGroupUse(fn *ssa.Function, out map[int]groupUse) {
	for _, anon := range fn.AnonFuncs {
		if len(anon.Params) == 0 {
			continue
		}
		var gu *groupUse
		pidx := -1
		for _, b := range anon.Blocks {
			for _, ins := range b.Instrs {
				ia, ok := ins.(*ssa.IndexAddr)
				if !ok || ia.Referrers() == nil {
					continue
				}
				for j, p := range anon.Params {
					if ia.Index == ssa.Value(p) {
						pidx = j
					}
				}
				if pidx < 0 {
					continue
				}
				// the indexed value is captured from the enclosing function
				base := ia.X
				if ld, ok := base.(*ssa.UnOp); ok {
					base = ld.X
				}
				if _, isFree := base.(*ssa.FreeVar); !isFree {
					continue
				}
				for _, r := range *ia.Referrers() {
					ld, ok := r.(*ssa.UnOp)
					if !ok || ld.Referrers() == nil {
						continue
					}
					for _, u := range *ld.Referrers() {
						call, ok := u.(*ssa.Call)
						if !ok || call.Call.StaticCallee() == nil || len(call.Call.Args) == 0 || call.Call.Args[0] != ssa.Value(ld) {
							continue
						}
						g := groupUse{parser: call.Call.StaticCallee().String()}
						switch g.parser {
						case "strconv.Atoi":
							g.base = 10
						case "strconv.ParseInt", "strconv.ParseUint":
							g.bits = -1
							if bv, ok := constInt(call.Call.Args[2]); ok {
								g.bits = int(bv.Int64())
							}
							if bv, ok := constInt(call.Call.Args[1]); ok {
								g.base = int(bv.Int64())
							}
						default:
							continue
						}
						// the literal returns the parsed value (possibly converted)
						returnsIt := false
						for _, rb := range anon.Blocks {
							if ret, ok := rb.Instrs[len(rb.Instrs)-1].(*ssa.Return); ok && len(ret.Results) >= 1 {
								v := ret.Results[0]
								if cv, ok := v.(*ssa.Convert); ok {
									v = cv.X
								}
								if ex, ok := v.(*ssa.Extract); ok && ex.Tuple == ssa.Value(call) && ex.Index == 0 {
									returnsIt = true
								}
							}
						}
						if returnsIt && gu == nil {
							gg := g
							gu = &gg
						}
					}
				}
			}
		}
		if gu == nil || pidx < 0 {
			continue
		}
		// its calls in the enclosing function
		for _, b := range fn.Blocks {
			for _, ins := range b.Instrs {
				call, ok := ins.(*ssa.Call)
				if !ok {
					continue
				}
				mc, ok := call.Call.Value.(*ssa.MakeClosure)
				if !ok || mc.Fn != ssa.Value(anon) || pidx >= len(call.Call.Args) {
					continue
				}
				if k, ok := constInt(call.Call.Args[pidx]); ok {
					g := *gu
					g.field = resultDestField(call)
					out[int(k.Int64())] = g
				}
			}
		}
	}
}

// helperParse: fn(digits string, ...) hands its first parameter to exactly one strconv parser and
// returns that parser's value (possibly converted) as its first result.
func helperParse(fn *ssa.Function) *groupUse {
	var found *groupUse
	for _, b := range fn.Blocks {
		for _, ins := range b.Instrs {
			call, ok := ins.(*ssa.Call)
			if !ok || call.Call.StaticCallee() == nil || len(call.Call.Args) == 0 || call.Call.Args[0] != ssa.Value(fn.Params[0]) {
				continue
			}
			gu := groupUse{parser: call.Call.StaticCallee().String()}
			switch gu.parser {
			case "strconv.Atoi":
				gu.base = 10
			case "encoding/hex.DecodeString":
				gu.base = 16
			case "strconv.ParseInt", "strconv.ParseUint":
				gu.bits = -1
				if bk, ok := call.Call.Args[2].(*ssa.Const); ok {
					if bv, ok := constValInt(bk.Value); ok {
						gu.bits = int(bv.Int64())
					}
				}
				if bk, ok := call.Call.Args[1].(*ssa.Const); ok {
					if bv, ok := constValInt(bk.Value); ok {
						gu.base = int(bv.Int64())
					}
				}
			default:
				return nil
			}
			if found != nil {
				return nil
			}
			// every non-error return gives back the parsed value
			env := newTermEnv()
			for _, rb := range fn.Blocks {
				if ret, ok := rb.Instrs[len(rb.Instrs)-1].(*ssa.Return); ok && len(ret.Results) >= 1 {
					t := atomName(env.Term(ret.Results[0]))
					if k, isK := ret.Results[0].(*ssa.Const); isK && k.Value != nil {
						continue // the zero value on the error return
					}
					if !strings.Contains(t, gu.parser) {
						return nil
					}
				}
			}
			g := gu
			found = &g
		}
	}
	return found
}

// resultDestField: the struct field into which result #0 of the call (possibly converted) is stored.
func resultDestField(call *ssa.Call) string {
	var follow func(v ssa.Value, depth int) string
	follow = func(v ssa.Value, depth int) string {
		if depth > 4 || v.Referrers() == nil {
			return ""
		}
		for _, r := range *v.Referrers() {
			switch x := r.(type) {
			case *ssa.Extract:
				if x.Index == 0 {
					if f := follow(x, depth+1); f != "" {
						return f
					}
				}
			case *ssa.Convert:
				if f := follow(x, depth+1); f != "" {
					return f
				}
			case *ssa.ChangeType:
				if f := follow(x, depth+1); f != "" {
					return f
				}
			case *ssa.Store:
				if fa, ok := x.Addr.(*ssa.FieldAddr); ok && x.Val == v {
					return fieldName(fa.X.Type(), fa.Field)
				}
			}
		}
		return ""
	}
	return follow(call, 0)
}

// checksumGuard: the reader's success return is dominated by the comparison of res[5]
// with the checksum recomputed by the writer's own function.
// bip276PayloadText: the writer's payload pieces as found by T-fmt on this run (compared with what the reader
// recomputes the checksum over).
var bip276PayloadText string

func checksumGuard(c *Ctx, reader *ssa.Function) {
	pEngine(c)
	for _, b := range reader.Blocks {
		ret, ok := b.Instrs[len(b.Instrs)-1].(*ssa.Return)
		if !ok || len(ret.Results) != 2 || returnKinds(ret.Results[1]) != 1 {
			continue
		}
		found := false
		for x := b; x != nil; x = x.Idom() {
			if len(x.Preds) != 1 {
				continue
			}
			pr := x.Preds[0]
			iff, ok := pr.Instrs[len(pr.Instrs)-1].(*ssa.If)
			if !ok {
				continue
			}
			bo, ok := iff.Cond.(*ssa.BinOp)
			if !ok || (bo.Op != token.NEQ && bo.Op != token.EQL) {
				continue
			}
			view := viewOf(reader)
			l, r := view.Env.Val(bo.X), view.Env.Val(bo.Y)
			isGroup5 := func(v ssa.Value) bool {
				ld, ok := v.(*ssa.UnOp)
				if !ok || ld.Op != token.MUL {
					return false
				}
				ia, ok := ld.X.(*ssa.IndexAddr)
				if !ok {
					return false
				}
				k, ok := constInt(ia.Index)
				return ok && k.Int64() == 5
			}
			// the other side: the checksum text of the payload built from the decoded fields
			isRecomputedV := func(v ssa.Value) bool {
				e := &sxEnv{sub: map[ssa.Value]ssa.Value{}}
				ps, ok := e.str(v)
				return ok && len(ps) == 1 && ps[0].kind == "hex" && ps[0].b == "sha256d(bytes("+bip276PayloadText+"))[0:4]"
			}
			if (isGroup5(l) && isRecomputedV(bo.Y)) || (isGroup5(r) && isRecomputedV(bo.X)) {
				taken := pr.Succs[0] == x
				if (bo.Op == token.NEQ && !taken) || (bo.Op == token.EQL && taken) {
					found = true
				}
			}
		}
		c.Check(found, "T-fmt", "checksum/guards-success", ret.Pos(), "success is reached only when the embedded checksum equals the checksum text recomputed over the decoded fields",
			"DecodeBIP276 can succeed without comparing the embedded checksum with the recomputed one")
	}
}

// S-disp: ValidateAddress dispatches on "bitcoin-script:" and returns true iff DecodeBIP276 succeeds.
// Decided on the function's paths (helpers it was split into are read as part of it).
func ruleSDisp(c *Ctx) {
	fn := c.P.Func("bscript", "", "ValidateAddress")
	if fn == nil {
		c.Undecided("S-disp", "ValidateAddress", token.NoPos, "not found")
		return
	}
	paths, err := feasiblePaths(fn, 500)
	if err != nil {
		c.Undecided("S-disp", "ValidateAddress", fn.Pos(), err.Error())
		return
	}
	shapes := map[string]bool{}
	prefixes := map[string]bool{}
	for _, d := range paths {
		if d.EndKind != "return" || len(d.Ret.Results) != 2 {
			shapes["does not return"] = true
			continue
		}
		prefix := "untested"
		for _, pc := range d.Conds {
			call, ok := pc.Cond.V.(*ssa.Call)
			if !ok || call.Call.StaticCallee() == nil || call.Call.StaticCallee().String() != "strings.HasPrefix" {
				continue
			}
			if atomName(d.Env.Term(call.Call.Args[0])) != "p0" {
				prefix = "tested on another string"
				continue
			}
			pt := d.Env.Term(call.Call.Args[1])
			if pt.K == "const" && pt.C != nil && pt.C.Kind() == constant.String {
				prefixes[constant.StringVal(pt.C)] = true
			} else {
				prefixes[atomName(pt)] = true
			}
			prefix = fmt.Sprintf("prefix=%v", pc.Truth)
		}
		var calls []string
		var decode *ssa.Call
		for _, ins := range pathInstrs(d) {
			if call, ok := ins.(*ssa.Call); ok && call.Call.StaticCallee() != nil {
				switch call.Call.StaticCallee().Name() {
				case "DecodeBIP276":
					calls = append(calls, "DecodeBIP276("+atomName(d.Env.Term(call.Call.Args[0]))+")")
					decode = call
				case "validA58":
					calls = append(calls, "validA58("+atomName(d.Env.Term(call.Call.Args[0]))+")")
				}
			}
		}
		verdict := atomName(d.Env.Term(d.Ret.Results[0]))
		errDesc := returnDesc(d)
		decErr := ""
		if decode != nil {
			// which way the test of DecodeBIP276's error went on this path
			for _, pc := range d.Conds {
				s := atomName(pc.Cond)
				if strings.Contains(s, "DecodeBIP276(") && strings.HasSuffix(s, "#1 != nil)") {
					decErr = fmt.Sprintf(" decode-error=%v", pc.Truth)
				} else if strings.Contains(s, "DecodeBIP276(") && strings.HasSuffix(s, "#1 == nil)") {
					decErr = fmt.Sprintf(" decode-error=%v", !pc.Truth)
				}
			}
		}
		if strings.Contains(verdict, "validA58(") {
			verdict = "validA58's"
		}
		shapes[prefix+"; "+strings.Join(calls, "; ")+decErr+"; verdict "+verdict+"; "+errDesc] = true
	}
	want := setOf(
		"prefix=true; DecodeBIP276(p0) decode-error=false; verdict true; return nil",
		"prefix=true; DecodeBIP276(p0) decode-error=true; verdict false; return err",
		"prefix=false; validA58([]byte(p0)); verdict validA58's; return err",
	)
	same := len(shapes) == len(want)
	for k := range shapes {
		if !want[k] {
			same = false
		}
	}
	c.Check(same, "S-disp", "ValidateAddress/dispatch", fn.Pos(), "bitcoin-script strings go to DecodeBIP276 on the string as given and are valid exactly when it reports no error; everything else goes to validA58 as given",
		fmt.Sprintf("ValidateAddress no longer dispatches bitcoin-script strings to DecodeBIP276 / the rest to validA58 with the decoder's verdict: {%s}, specified {%s}", strings.Join(keysSorted(shapes), " | "), strings.Join(keysSorted(want), " | ")))
	c.Check(len(prefixes) == 1 && prefixes["bitcoin-script:"], "S-disp", "ValidateAddress/prefix", fn.Pos(), "dispatch prefix is PrefixScript + \":\"", fmt.Sprintf("dispatch prefix is %v", keysOf(prefixes)))
}
