package main

// T-fmt (C17): writer / regular expression / reader agreement for the BIP276
// text format, and the BIP's field order.

import (
	"fmt"
	"go/ast"
	"go/constant"
	"go/token"
	"regexp/syntax"
	"strings"

	"golang.org/x/tools/go/ssa"
)

type fmtVerb struct {
	verb  string // e.g. "%.2x"
	field string // argument field name
}

// sprintfVerbs: the first fmt.Sprintf call with a constant format in fn.
func sprintfVerbs(fn *ssa.Function) ([]fmtVerb, string, *ssa.Call) {
	for _, b := range fn.Blocks {
		for _, ins := range b.Instrs {
			call, ok := ins.(*ssa.Call)
			if !ok {
				continue
			}
			sc := call.Call.StaticCallee()
			if sc == nil || sc.String() != "fmt.Sprintf" {
				continue
			}
			k, ok := call.Call.Args[0].(*ssa.Const)
			if !ok || k.Value == nil || k.Value.Kind() != constant.String {
				continue
			}
			format := constant.StringVal(k.Value)
			// variadic args: slice of an alloc'd array with stores of MakeInterface values
			var fields []string
			if sl, ok := call.Call.Args[1].(*ssa.Slice); ok {
				if al, ok := sl.X.(*ssa.Alloc); ok && al.Referrers() != nil {
					byIdx := map[int64]string{}
					for _, r := range *al.Referrers() {
						ia, ok := r.(*ssa.IndexAddr)
						if !ok || ia.Referrers() == nil {
							continue
						}
						idx, _ := constInt(ia.Index)
						for _, rr := range *ia.Referrers() {
							if st, ok := rr.(*ssa.Store); ok {
								v := st.Val
								if mi, ok := v.(*ssa.MakeInterface); ok {
									v = mi.X
								}
								byIdx[idx.Int64()] = valueFieldName(v)
							}
						}
					}
					for i := int64(0); i < int64(len(byIdx)); i++ {
						fields = append(fields, byIdx[i])
					}
				}
			}
			var verbs []fmtVerb
			ai := 0
			for i := 0; i < len(format); i++ {
				if format[i] != '%' {
					continue
				}
				j := i + 1
				for j < len(format) && strings.ContainsRune("0123456789.+-# ", rune(format[j])) {
					j++
				}
				if j >= len(format) {
					break
				}
				if format[j] == '%' {
					i = j
					continue
				}
				f := ""
				if ai < len(fields) {
					f = fields[ai]
				}
				ai++
				verbs = append(verbs, fmtVerb{format[i : j+1], f})
				i = j
			}
			return verbs, format, call
		}
	}
	return nil, "", nil
}

// valueFieldName: the struct field a value was read from (through loads / Field).
func valueFieldName(v ssa.Value) string {
	switch x := v.(type) {
	case *ssa.UnOp:
		if fa, ok := x.X.(*ssa.FieldAddr); ok {
			return fieldName(fa.X.Type(), fa.Field)
		}
	case *ssa.Field:
		return fieldName(x.X.Type(), x.Field)
	case *ssa.ChangeType:
		return valueFieldName(x.X)
	case *ssa.Convert:
		return valueFieldName(x.X)
	}
	return "?"
}

type reGroup struct {
	class string // normalised character class, e.g. "hex", "digit", "any"
	min   int
	max   int
}

func regexGroups(pattern string) ([]reGroup, error) {
	re, err := syntax.Parse(pattern, syntax.Perl)
	if err != nil {
		return nil, err
	}
	var out []reGroup
	var walk func(r *syntax.Regexp)
	walk = func(r *syntax.Regexp) {
		if r.Op == syntax.OpCapture {
			out = append(out, describeGroup(r.Sub[0]))
			return
		}
		for _, s := range r.Sub {
			walk(s)
		}
	}
	walk(re)
	return out, nil
}

// regexTopShape renders the top-level sequence of the expression.
func regexTopShape(pattern string) string {
	re, err := syntax.Parse(pattern, syntax.Perl)
	if err != nil {
		return "unparseable"
	}
	subs := []*syntax.Regexp{re}
	if re.Op == syntax.OpConcat {
		subs = re.Sub
	}
	var out []string
	for _, r := range subs {
		switch r.Op {
		case syntax.OpBeginText:
			out = append(out, "^")
		case syntax.OpEndText:
			out = append(out, "$")
		case syntax.OpCapture:
			out = append(out, "( )")
		case syntax.OpLiteral:
			out = append(out, "lit("+string(r.Rune)+")")
		default:
			out = append(out, r.Op.String())
		}
	}
	return strings.Join(out, " ")
}

func describeGroup(r *syntax.Regexp) reGroup {
	g := reGroup{min: 1, max: 1}
	inner := r
	switch r.Op {
	case syntax.OpRepeat:
		g.min, g.max = r.Min, r.Max
		inner = r.Sub[0]
	case syntax.OpPlus:
		g.min, g.max = 1, -1
		inner = r.Sub[0]
	case syntax.OpStar:
		g.min, g.max = 0, -1
		inner = r.Sub[0]
	case syntax.OpQuest:
		g.min, g.max = 0, 1
		inner = r.Sub[0]
	case syntax.OpConcat:
		g.class = "concat"
		return g
	}
	// non-greedy wrappers keep Op the same with Flags; character class
	switch inner.Op {
	case syntax.OpCharClass:
		g.class = classOf(inner.Rune)
	case syntax.OpAnyCharNotNL, syntax.OpAnyChar:
		g.class = "any"
	default:
		g.class = inner.Op.String()
	}
	return g
}

func classOf(rs []rune) string {
	s := ""
	for i := 0; i+1 < len(rs); i += 2 {
		s += fmt.Sprintf("%c-%c", rs[i], rs[i+1])
	}
	switch s {
	case "0-9":
		return "digit"
	case "0-9A-Fa-f":
		return "hex"
	case "0-9a-f":
		return "hexlower"
	}
	return s
}

func ruleTFmt(c *Ctx) {
	pk := c.P.Pkgs[modPath+"/bscript"]
	writer := c.P.Func("bscript", "", "createBIP276")
	reader := c.P.Func("bscript", "", "DecodeBIP276")
	if writer == nil || reader == nil {
		c.Undecided("T-fmt", "anchors", token.NoPos, "createBIP276 / DecodeBIP276 not found")
		return
	}
	verbs, format, _ := sprintfVerbs(writer)
	if len(verbs) == 0 {
		c.Undecided("T-fmt", "writer/format", writer.Pos(), "no fmt.Sprintf with a constant format found in createBIP276 (writer idiom not recognised)")
		return
	}
	// regex pattern: the package-level regexp.MustCompile constant used by the reader
	pattern := ""
	var patPos token.Pos
	for _, f := range pk.Syntax {
		ast.Inspect(f, func(n ast.Node) bool {
			ce, ok := n.(*ast.CallExpr)
			if !ok || len(ce.Args) != 1 {
				return true
			}
			if se, ok := ce.Fun.(*ast.SelectorExpr); ok && se.Sel.Name == "MustCompile" {
				if tv, ok := pk.TypesInfo.Types[ce.Args[0]]; ok && tv.Value != nil && tv.Value.Kind() == constant.String {
					p := constant.StringVal(tv.Value)
					if strings.Contains(p, ":") {
						pattern, patPos = p, ce.Pos()
					}
				}
			}
			return true
		})
	}
	groups, err := regexGroups(pattern)
	if pattern == "" || err != nil {
		c.Undecided("T-fmt", "reader/regex", reader.Pos(), "constant regular expression of the reader not found or not parseable")
		return
	}
	// whole-text match: ^ group ':' group group group group $ and nothing else
	shape := regexTopShape(pattern)
	c.Check(shape == "^ ( ) lit(:) ( ) ( ) ( ) ( ) $", "T-fmt", "reader/regex-anchored", patPos, "the reader's expression matches the whole text: "+shape,
		"the reader's expression is not of the form ^(prefix):(..)(..)(data)(checksum)$ — it is "+shape+": text before or after a valid encoding would be accepted")
	c.Covered["T-fmt:verbs"] = len(verbs)
	c.Covered["T-fmt:groups"] = len(groups)
	c.Check(len(verbs) == 4 && len(groups) == 5, "T-fmt", "shape", patPos,
		fmt.Sprintf("writer has %d verbs (+ checksum), reader has %d groups", len(verbs), len(groups)),
		fmt.Sprintf("writer format %q has %d verbs but the reader's expression has %d groups (expected 4 payload fields + checksum)", format, len(verbs), len(groups)))
	if len(verbs) != 4 || len(groups) != 5 {
		return
	}
	// reader: what happens with res[k]
	dest := readerGroupUse(reader)
	// (a) per position: class/width/base agree
	for i := 1; i <= 2; i++ {
		v := verbs[i]
		g := groups[i]
		key := fmt.Sprintf("field%d", i+1)
		okVerb := v.verb == "%.2x" || v.verb == "%02x"
		c.Check(okVerb, "T-fmt", key+"/writer-verb", writer.Pos(), "two lower-case hex digits ("+v.verb+")", "writer prints the field with "+v.verb+", the BIP requires two hex digits")
		classOK := (g.class == "hex" || g.class == "hexlower") && g.min == 2 && g.max == 2
		c.Check(classOK, "T-fmt", key+"/reader-class", patPos, "reader accepts exactly two hex digits",
			fmt.Sprintf("writer emits two HEX digits for %s but the reader's group %d accepts class %q{%d,%d}: values >= 10 (0a..ff) never match", v.field, i+1, g.class, g.min, g.max))
		d := dest[i+1]
		c.Check(d.base == 16, "T-fmt", key+"/reader-base", reader.Pos(), "reader parses the digits base 16",
			fmt.Sprintf("writer emits %s in base 16 but the reader parses group %d with %s (base %d)", v.field, i+1, d.parser, d.base))
		// every value the writer can emit (00..ff) must be inside the parser's range
		rangeOK := true
		switch d.parser {
		case "strconv.ParseInt":
			rangeOK = d.bits == 0 || d.bits >= 9
		case "strconv.ParseUint":
			rangeOK = d.bits == 0 || d.bits >= 8
		}
		c.Check(rangeOK, "T-fmt", key+"/reader-range", reader.Pos(), "the reader's integer parser accepts all of 00..ff",
			fmt.Sprintf("the reader parses group %d with %s bitSize %d: two hex digits reach 255, values outside that bit size are rejected although the writer emits them", i+1, d.parser, d.bits))
		c.Check(d.field == v.field, "T-fmt", key+"/same-field", reader.Pos(), "writer and reader agree that position "+fmt.Sprint(i+1)+" is "+v.field,
			fmt.Sprintf("writer puts %s at position %d but the reader stores group %d into %s: no round trip unless both values are equal", v.field, i+1, i+1, d.field))
	}
	// prefix, data
	c.Check(verbs[0].verb == "%s" && verbs[0].field == "Prefix" && dest[1].field == "Prefix", "T-fmt", "field1/prefix", writer.Pos(), "prefix agrees", "prefix position disagrees between writer and reader")
	c.Check(verbs[3].verb == "%x" && verbs[3].field == "Data" && dest[4].field == "Data" && dest[4].base == 16 && groups[3].class == "hex", "T-fmt", "field4/data", writer.Pos(), "data is hex on both sides", "data field encoding disagrees between writer and reader")
	// checksum: 8 hex digits, compared before success
	c.Check(groups[4].class == "hex" && groups[4].min == 8 && groups[4].max == 8, "T-fmt", "checksum/width", patPos, "checksum group is 8 hex digits", "checksum group is not exactly 8 hex digits")
	checksumGuard(c, reader)
	// (c) BIP order: prefix, version, network, data
	order := []string{verbs[0].field, verbs[1].field, verbs[2].field, verbs[3].field}
	want := []string{"Prefix", "Version", "Network", "Data"}
	c.Check(strings.Join(order, ",") == strings.Join(want, ","), "T-fmt", "writer/bip-order", writer.Pos(), "writer emits prefix, version, network, data as BIP276 specifies",
		fmt.Sprintf("writer emits %v, BIP276 specifies %v", order, want))
	// (e) encoder range guards
	if enc := c.P.Func("bscript", "", "EncodeBIP276"); enc != nil {
		at := lengthAtomsOnField(enc, "Version")
		an := lengthAtomsOnField(enc, "Network")
		c.Check(at["== 0"] && at["> 255"] && an["== 0"] && an["> 255"], "T-fmt", "encoder/range", enc.Pos(), "EncodeBIP276 rejects version/network outside 1..255",
			fmt.Sprintf("EncodeBIP276 range guards changed: version %v network %v", keysOf(at), keysOf(an)))
	} else {
		c.Undecided("T-fmt", "encoder/range", token.NoPos, "EncodeBIP276 not found")
	}
}

func keysOf(m map[string]bool) []string {
	var o []string
	for k := range m {
		o = append(o, k)
	}
	return o
}

func lengthAtomsOnField(fn *ssa.Function, field string) map[string]bool {
	out := map[string]bool{}
	for _, b := range fn.Blocks {
		for _, ins := range b.Instrs {
			bo, ok := ins.(*ssa.BinOp)
			if !ok {
				continue
			}
			k, isC := bo.Y.(*ssa.Const)
			if !isC || k.Value == nil || valueFieldName(bo.X) != field {
				continue
			}
			out[bo.Op.String()+" "+k.Value.ExactString()] = true
		}
	}
	return out
}

type groupUse struct {
	parser string
	bits   int // strconv bitSize argument (0 = int), -1 when not a strconv parser
	base   int
	field  string
}

// readerGroupUse: for each res[k], the parser applied and the struct field receiving the result.
func readerGroupUse(fn *ssa.Function) map[int]groupUse {
	out := map[int]groupUse{}
	for _, b := range fn.Blocks {
		for _, ins := range b.Instrs {
			ia, ok := ins.(*ssa.IndexAddr)
			if !ok {
				continue
			}
			idx, ok := constInt(ia.Index)
			if !ok || ia.Referrers() == nil {
				continue
			}
			for _, r := range *ia.Referrers() {
				ld, ok := r.(*ssa.UnOp)
				if !ok || ld.Referrers() == nil {
					continue
				}
				for _, u := range *ld.Referrers() {
					switch x := u.(type) {
					case *ssa.Store:
						if fa, ok := x.Addr.(*ssa.FieldAddr); ok {
							out[int(idx.Int64())] = groupUse{parser: "direct", base: 0, field: fieldName(fa.X.Type(), fa.Field)}
						}
					case *ssa.Call:
						sc := x.Call.StaticCallee()
						if sc == nil {
							continue
						}
						gu := groupUse{parser: sc.String()}
						switch sc.String() {
						case "strconv.Atoi":
							gu.base = 10
						case "encoding/hex.DecodeString":
							gu.base = 16
						case "strconv.ParseInt", "strconv.ParseUint":
							gu.bits = -1
							if len(x.Call.Args) > 2 {
								if bk, ok := x.Call.Args[2].(*ssa.Const); ok {
									if bv, ok := constValInt(bk.Value); ok {
										gu.bits = int(bv.Int64())
									}
								}
							}
							if len(x.Call.Args) > 1 {
								if bk, ok := x.Call.Args[1].(*ssa.Const); ok {
									if bv, ok := constValInt(bk.Value); ok {
										gu.base = int(bv.Int64())
									}
								}
							}
						}
						gu.field = resultDestField(x)
						if gu.field != "" || gu.base != 0 {
							out[int(idx.Int64())] = gu
						}
					}
				}
			}
		}
	}
	return out
}

// resultDestField: the struct field into which result #0 of the call (possibly converted) is stored.
func resultDestField(call *ssa.Call) string {
	var follow func(v ssa.Value, depth int) string
	follow = func(v ssa.Value, depth int) string {
		if depth > 4 || v.Referrers() == nil {
			return ""
		}
		for _, r := range *v.Referrers() {
			switch x := r.(type) {
			case *ssa.Extract:
				if x.Index == 0 {
					if f := follow(x, depth+1); f != "" {
						return f
					}
				}
			case *ssa.Convert:
				if f := follow(x, depth+1); f != "" {
					return f
				}
			case *ssa.Store:
				if fa, ok := x.Addr.(*ssa.FieldAddr); ok && x.Val == v {
					return fieldName(fa.X.Type(), fa.Field)
				}
			}
		}
		return ""
	}
	return follow(call, 0)
}

// checksumGuard: the reader's success return is dominated by the comparison of res[5]
// with the checksum recomputed by the writer's own function.
func checksumGuard(c *Ctx, reader *ssa.Function) {
	pe := pEngine(c)
	pf := pe.pf(reader)
	for _, b := range reader.Blocks {
		ret, ok := b.Instrs[len(b.Instrs)-1].(*ssa.Return)
		if !ok || len(ret.Results) != 2 || returnKinds(ret.Results[1]) != 1 {
			continue
		}
		found := false
		for x := b; x != nil; x = x.Idom() {
			if len(x.Preds) != 1 {
				continue
			}
			pr := x.Preds[0]
			iff, ok := pr.Instrs[len(pr.Instrs)-1].(*ssa.If)
			if !ok {
				continue
			}
			bo, ok := iff.Cond.(*ssa.BinOp)
			if !ok || (bo.Op != token.NEQ && bo.Op != token.EQL) {
				continue
			}
			l, r := pf.get(bo.X), pf.get(bo.Y)
			isGroup5 := func(n *vn) bool {
				return n.op == "load" && n.args[0].op == "indexaddr" && n.args[0].args[1].op == "const" && n.args[0].args[1].c != nil && n.args[0].args[1].c.ExactString() == "5"
			}
			isRecomputed := func(n *vn) bool {
				return n.op == "extract" && n.name == "1" && n.args[0].op == "call" && strings.Contains(n.args[0].name, "createBIP276")
			}
			if (isGroup5(l) && isRecomputed(r)) || (isGroup5(r) && isRecomputed(l)) {
				taken := pr.Succs[0] == x
				if (bo.Op == token.NEQ && !taken) || (bo.Op == token.EQL && taken) {
					found = true
				}
			}
		}
		c.Check(found, "T-fmt", "checksum/guards-success", ret.Pos(), "success is reached only when the embedded checksum equals the checksum recomputed by createBIP276",
			"DecodeBIP276 can succeed without comparing the embedded checksum with the recomputed one")
	}
}

// S-disp: ValidateAddress dispatches on "bitcoin-script:" and returns true iff DecodeBIP276 succeeds.
func ruleSDisp(c *Ctx) {
	fn := c.P.Func("bscript", "", "ValidateAddress")
	if fn == nil {
		c.Undecided("S-disp", "ValidateAddress", token.NoPos, "not found")
		return
	}
	pe := pEngine(c)
	pf := pe.pf(fn)
	var hasPrefix, decode *ssa.Call
	for _, b := range fn.Blocks {
		for _, ins := range b.Instrs {
			if call, ok := ins.(*ssa.Call); ok {
				if sc := call.Call.StaticCallee(); sc != nil {
					switch sc.String() {
					case "strings.HasPrefix":
						hasPrefix = call
					}
					if sc.Name() == "DecodeBIP276" {
						decode = call
					}
				}
			}
		}
	}
	if hasPrefix == nil || decode == nil {
		c.Fail("S-disp", "ValidateAddress/dispatch", fn.Pos(), "ValidateAddress no longer dispatches bitcoin-script strings to DecodeBIP276")
		return
	}
	pre := ""
	if k, ok := hasPrefix.Call.Args[1].(*ssa.Const); ok && k.Value != nil {
		pre = constant.StringVal(k.Value)
	}
	c.Check(pre == "bitcoin-script:", "S-disp", "ValidateAddress/prefix", hasPrefix.Pos(), "dispatch prefix is PrefixScript + \":\"", "dispatch prefix is "+pre)
	// the decode call is reached only when HasPrefix is true
	fs := pf.factsAt(decode.Block())
	_ = fs
	domOK := false
	for x := decode.Block(); x != nil; x = x.Idom() {
		if len(x.Preds) == 1 {
			pr := x.Preds[0]
			if iff, ok := pr.Instrs[len(pr.Instrs)-1].(*ssa.If); ok && iff.Cond == ssa.Value(hasPrefix) && pr.Succs[0] == x {
				domOK = true
			}
		}
	}
	c.Check(domOK, "S-disp", "ValidateAddress/guard", decode.Pos(), "DecodeBIP276 is called exactly on the HasPrefix branch", "DecodeBIP276 is not guarded by the prefix test")
	// returns in the region dominated by the decode block: true iff err == nil
	for _, b := range fn.Blocks {
		ret, ok := b.Instrs[len(b.Instrs)-1].(*ssa.Return)
		if !ok || !decode.Block().Dominates(b) {
			continue
		}
		tv, isC := ret.Results[0].(*ssa.Const)
		if !isC {
			c.Fail("S-disp", "ValidateAddress/verdict", ret.Pos(), "verdict after DecodeBIP276 is not a constant")
			continue
		}
		verdict := constant.BoolVal(tv.Value)
		errNil := false
		errNonNil := false
		for _, f := range pf.factsAt(b).facts {
			if f.isnil != "" && strings.Contains(f.isnil, "DecodeBIP276") {
				errNil = true
			}
			if f.nonil != "" && strings.Contains(f.nonil, "DecodeBIP276") {
				errNonNil = true
			}
		}
		c.Check((verdict && errNil) || (!verdict && errNonNil), "S-disp", fmt.Sprintf("ValidateAddress/verdict-%v", verdict), ret.Pos(),
			"returns true exactly when DecodeBIP276 returned no error", "the verdict for bitcoin-script strings does not follow DecodeBIP276's error")
	}
}
