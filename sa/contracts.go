package main

// Contracts for functions outside the module (trusted, not analysed). Each
// entry says which arguments' pointees the callee may write (receiver = 0),
// which arguments the result may alias, and whether the result is fresh.
// An external callee that receives caller-visible reference arguments and has
// no entry is reported as undecided by the rules that depend on engine O.

import (
	"strings"

	"golang.org/x/tools/go/ssa"
)

var extContracts = map[string]extContract{
	"io.ReadFull":    {writes: []int{1}, fresh: true, reason: "fills buf"},
	"io.ReadAtLeast": {writes: []int{1}, fresh: true, reason: "fills (part of) buf"},
	"(encoding/binary.littleEndian).PutUint16": {writes: []int{1}, reason: "writes b[0:2]"},
	"(encoding/binary.littleEndian).PutUint32": {writes: []int{1}, reason: "writes b[0:4]"},
	"(encoding/binary.littleEndian).PutUint64": {writes: []int{1}, reason: "writes b[0:8]"},
	"(encoding/binary.bigEndian).PutUint32":    {writes: []int{1}, reason: "writes b[0:4]"},
	"encoding/hex.Decode":                      {writes: []int{0}, fresh: true},
	"encoding/hex.Encode":                      {writes: []int{0}, fresh: true},
	"bytes.NewReader":                          {aliases: []int{0}, reason: "reader over b (read-only)"},
	"bytes.NewBuffer":                          {aliases: []int{0}, reason: "buffer takes ownership of b"},
	"encoding/json.Unmarshal":                  {writes: []int{1}, fresh: true, reason: "decodes into v"},
	"(*encoding/json.Decoder).Decode":          {writes: []int{1}, fresh: true},
	"(hash.Hash).Write":                        {fresh: true, reason: "reads p"},
	"(io.Writer).Write":                        {fresh: true},
	"(hash.Hash).Sum":                          {aliases: []int{1}, writes: []int{1}, reason: "appends to b"},
	"(*math/big.Int).SetBytes":                 {writes: []int{0}, aliases: []int{0}},
	"(*math/big.Int).Bytes":                    {fresh: true},
	"(*math/big.Int).Cmp":                      {fresh: true},
	"(*math/big.Int).Int64":                    {fresh: true},
	"(*math/big.Int).Sign":                     {fresh: true},
	"(*math/big.Int).String":                   {fresh: true},
	"bytes.Join":                               {fresh: true},
	"bytes.Equal":                              {fresh: true},
	"bytes.Contains":                           {fresh: true},
	"bytes.HasPrefix":                          {fresh: true},
	"bytes.Compare":                            {fresh: true},
	"bytes.Repeat":                             {fresh: true},
	"sort.Slice":                               {writes: []int{0}, reason: "reorders the slice"},
	"(*sync.RWMutex).Lock":                     {fresh: true},
	"(*sync.RWMutex).Unlock":                   {fresh: true},
	"(*sync.RWMutex).RLock":                    {fresh: true},
	"(*sync.RWMutex).RUnlock":                  {fresh: true},
}

// receivers of *big.Int methods that write their receiver and return it
var bigIntMutators = map[string]bool{"Add": true, "Sub": true, "Mul": true, "Quo": true, "Rem": true, "Neg": true, "Abs": true, "Set": true,
	"SetInt64": true, "Lsh": true, "Rsh": true, "Or": true, "And": true, "Not": true, "Xor": true, "Div": true, "Mod": true, "SetString": true, "SetUint64": true, "Exp": true}

// pure packages: functions that only read their arguments and return fresh values
var purePkgs = map[string]bool{
	"fmt": true, "errors": true, "github.com/pkg/errors": true, "strings": true, "strconv": true, "encoding/hex": true,
	"math": true, "time": true, "regexp": true, "unicode": true, "unicode/utf8": true, "log": true, "os": true,
	"crypto/sha256": true, "crypto/sha1": true, "golang.org/x/crypto/ripemd160": true, "context": true,
	"github.com/libsv/go-bk/crypto": true, "github.com/libsv/go-bk/base58": true, "github.com/libsv/go-bk/bec": true,
	"github.com/libsv/go-bk/wif": true, "github.com/libsv/go-bk/bip32": true, "github.com/libsv/go-bk/chaincfg": true,
	"encoding/binary": true, "math/big": true, "sync": true, "hash": true, "bytes": true, "sort": true, "golang.org/x/sync/errgroup": true,
}

func extContractByPkg(callee *ssa.Function) (extContract, bool) {
	if callee.Pkg == nil {
		// method of an instantiated/wrapper type: look at the receiver's package via the string
		s := callee.String()
		for p := range purePkgs {
			if strings.Contains(s, p+".") {
				return extContract{fresh: true, reason: "package " + p + " reads its arguments only"}, true
			}
		}
		return extContract{}, false
	}
	path := callee.Pkg.Pkg.Path()
	if path == "math/big" && callee.Signature.Recv() != nil && bigIntMutators[callee.Name()] {
		return extContract{writes: []int{0}, aliases: []int{0}, reason: "big.Int arithmetic writes and returns its receiver"}, true
	}
	if path == "encoding/json" {
		switch callee.Name() {
		case "Marshal", "MarshalIndent":
			return extContract{fresh: true, reason: "reads v"}, true
		}
	}
	if purePkgs[path] {
		return extContract{fresh: true, reason: "package " + path + " reads its arguments only (confirmed for the functions go-bt calls)"}, true
	}
	return extContract{}, false
}
