package main

import (
	"flag"
	"fmt"
	"os"
	"runtime/debug"
	"runtime/pprof"
	"sort"
	"strconv"
	"strings"
	"time"
)

// A rule is a named analysis run against the loaded program for one property.
type rule struct {
	name string
	run  func(c *Ctx)
	// thoroughOnly rules run only in the thorough tier.
	thoroughOnly bool
}

type propertySpec struct {
	id          string
	rules       []rule
	explanation string
	assumptions []string
}

var registry = map[string]*propertySpec{}

func register(id string, explanation string, assumptions []string, rules ...rule) {
	registry[id] = &propertySpec{id: id, rules: rules, explanation: explanation, assumptions: assumptions}
}

// addRule appends a rule to a property registered before.
func addRule(id string, r rule) {
	if sp := registry[id]; sp != nil {
		sp.rules = append(sp.rules, r)
	} else {
		panic("addRule: unknown property " + id)
	}
}

var commonAssumptions = []string{
	"Go compiler, runtime and standard library behave as documented (trusted, not analysed)",
	"github.com/libsv/go-bk (bec, crypto, base58), github.com/pkg/errors, golang.org/x/crypto/ripemd160 are trusted through the contracts table in contracts.go",
	"int is 64 bit (GOARCH=amd64); the thorough tier re-type-checks under GOARCH=386 for information only",
	"no unsafe/reflect/cgo/build-tag/go-statement in analysed packages (re-asserted by rule R0 on every run)",
}

func main() {
	if pf := os.Getenv("VERIF_PROF"); pf != "" {
		f, _ := os.Create(pf)
		pprof.StartCPUProfile(f)
		defer pprof.StopCPUProfile()
	}
	if len(os.Args) < 2 {
		usage()
	}
	switch os.Args[1] {
	case "check":
		code := cmdCheck(os.Args[2:])
		pprof.StopCPUProfile()
		os.Exit(code)
	case "check-all":
		// developer tool: every property on one loaded program, evidence written under VERIF_DIR (use a scratch dir)
		fs := flag.NewFlagSet("check-all", flag.ExitOnError)
		repo := fs.String("repo", "/repo", "repository to analyse")
		fs.Parse(os.Args[2:])
		p, err := loadProg(*repo, "")
		if err != nil {
			fmt.Println("load failure:", err)
			os.Exit(1)
		}
		var ids []string
		for id := range registry {
			ids = append(ids, id)
		}
		sort.Strings(ids)
		bad := 0
		for _, id := range ids {
			c, err := newCtx(p, id, "quick")
			if err != nil {
				fmt.Println(err)
				os.Exit(2)
			}
			for _, r := range append([]rule{{name: "R0", run: ruleR0}}, registry[id].rules...) {
				runRule(c, r)
			}
			if c.finish(time.Now(), registry[id].explanation, nil, 0) != 0 {
				bad++
			}
		}
		if bad > 0 {
			os.Exit(1)
		}
		return
	case "explain":
		if len(os.Args) < 3 {
			usage()
		}
		b, err := os.ReadFile(os.Args[2])
		if err != nil {
			fmt.Println(err)
			os.Exit(2)
		}
		fmt.Println(string(b))
	case "list":
		var ids []string
		for id := range registry {
			ids = append(ids, id)
		}
		sort.Strings(ids)
		for _, id := range ids {
			var rn []string
			for _, r := range registry[id].rules {
				rn = append(rn, r.name)
			}
			fmt.Printf("%s: %s\n", id, strings.Join(rn, " "))
		}
	default:
		if f, ok := debugCmds[os.Args[1]]; ok {
			f(os.Args[2:])
			return
		}
		usage()
	}
}

var debugCmds = map[string]func([]string){}

func usage() {
	fmt.Println("usage: verif-sa check --property Cxx [--tier quick|thorough] [--repo /repo] | explain <replay.json> | list")
	os.Exit(2)
}

func cmdCheck(args []string) (code int) {
	fs := flag.NewFlagSet("check", flag.ExitOnError)
	prop := fs.String("property", "", "property id")
	tier := fs.String("tier", os.Getenv("VERIF_TIER"), "quick|thorough")
	repo := fs.String("repo", "/repo", "repository to analyse")
	fs.Parse(args)
	if *tier == "" {
		*tier = "quick"
	}
	if *tier != "quick" && *tier != "thorough" {
		fmt.Println("bad tier")
		return 2
	}
	spec := registry[*prop]
	if spec == nil {
		fmt.Printf("unknown property %q\n", *prop)
		return 2
	}
	seed, _ := strconv.Atoi(os.Getenv("VERIF_SEED"))
	start := time.Now()
	p, err := loadProg(*repo, "")
	if err != nil {
		// A tree that does not load/type-check is undecided → fail, with evidence.
		fmt.Printf("  UNDECIDED: %v\n", err)
		fmt.Printf("VIOLATION property=%s replay=%s\n", *prop, "/verif/evidence/"+*prop+".json")
		writeLoadFailureEvidence(*prop, *tier, seed, start, err)
		return 1
	}
	c, err := newCtx(p, *prop, *tier)
	if err != nil {
		fmt.Println("cannot read tables:", err)
		return 2
	}
	for _, r := range append([]rule{{name: "R0", run: ruleR0}}, spec.rules...) {
		if r.thoroughOnly && *tier != "thorough" {
			continue
		}
		runRule(c, r)
	}
	return c.finish(start, spec.explanation, append(append([]string{}, commonAssumptions...), spec.assumptions...), seed)
}

func runRule(c *Ctx, r rule) {
	c.ruleStart(r.name)
	defer func() {
		if e := recover(); e != nil {
			c.Undecided(r.name, "analysis-panic", 0, fmt.Sprintf("analysis panicked: %v\n%s", e, lastLines(string(debug.Stack()), 12)))
		}
	}()
	r.run(c)
}

func lastLines(s string, n int) string {
	l := strings.Split(s, "\n")
	if len(l) > 2*n {
		l = l[:2*n]
	}
	return strings.Join(l, "\n")
}

func writeLoadFailureEvidence(prop, tier string, seed int, start time.Time, err error) {
	c := &Ctx{P: &Prog{Repo: "/repo", Pkgs: nil}, Property: prop, Tier: tier, Covered: map[string]int{}, usedTr: map[int]bool{}, seen: map[string]bool{}}
	c.Obls = append(c.Obls, &Obligation{Rule: "LOAD", Key: "load", Pos: "-", Verdict: Undecided, Detail: err.Error()})
	// do not print a second VIOLATION line
	old := os.Stdout
	devnull, _ := os.OpenFile(os.DevNull, os.O_WRONLY, 0)
	os.Stdout = devnull
	c.finish(start, "program failed to load or type-check; nothing analysed", nil, seed)
	os.Stdout = old
}
