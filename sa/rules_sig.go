package main

// C06 rules: signature opcodes.
//   T-enc     decision tables of checkHashTypeEncoding and checkPubKeyEncoding against the node's rules
//   G-legacy  signature/code-separator removal happens exactly when the legacy digest is in force,
//             identically in OP_CHECKSIG and OP_CHECKMULTISIG; the hash type tested is the last byte of
//             the signature being removed
//   S-sub     script code starts after the last executed OP_CODESEPARATOR (thread.subScript)
//   S-enc     every Verify is preceded by the three encoding checks with their errors propagated
//   S-false   a key or signature that does not parse yields false (CHECKSIG) / next key (CHECKMULTISIG), not an error
//   S-nullf   NULLFAIL and NULLDUMMY fire exactly under their flag and condition; the pushed result is Verify's

import (
	"fmt"
	"go/constant"
	"go/token"
	"go/types"
	"math/big"
	"sort"
	"strings"

	"golang.org/x/tools/go/ssa"
)

// ---- evaluation of conditions with sighash.Flag helpers inlined ----

func sigEval(t *T, asg map[string]*big.Int) (*big.Int, bool) {
	if v, ok := asg[atomName(t)]; ok {
		return v, true
	}
	switch t.K {
	case "call":
		n := callOrdinal.ReplaceAllString(t.Name, "")
		if strings.HasSuffix(n, "sighash.Flag).Has") && len(t.Args) == 2 {
			x, ok1 := sigEval(t.Args[0], asg)
			k, ok2 := sigEval(t.Args[1], asg)
			if ok1 && ok2 {
				if new(big.Int).And(x, k).Cmp(k) == 0 {
					return big.NewInt(1), true
				}
				return big.NewInt(0), true
			}
		}
		// t.hasAny(f1, f2, ...) is hasFlag(f1) || hasFlag(f2) || ... over the same flag atoms
		if strings.HasSuffix(n, "thread).hasAny") && len(t.Args) >= 1 {
			if call, ok := t.V.(*ssa.Call); ok {
				any, all := false, true
				for _, fv := range appendedValues2(call) {
					k, isK := constInt(fv)
					if !isK {
						all = false
						break
					}
					v, ok := asg[fmt.Sprintf("(*bscript/interpreter.thread).hasFlag(%s, %d)", atomName(t.Args[0]), k.Int64())]
					if !ok {
						all = false
						break
					}
					if v.Sign() != 0 {
						any = true
					}
				}
				if all {
					if any {
						return big.NewInt(1), true
					}
					return big.NewInt(0), true
				}
			}
		}
		return nil, false
	case "un":
		x, ok := sigEval(t.Args[0], asg)
		if !ok {
			return nil, false
		}
		switch t.Op {
		case token.NOT:
			if x.Sign() == 0 {
				return big.NewInt(1), true
			}
			return big.NewInt(0), true
		case token.XOR:
			return wrapToType(new(big.Int).Not(x), t.Typ), true
		case token.SUB:
			return wrapToType(new(big.Int).Neg(x), t.Typ), true
		}
		return nil, false
	case "conv":
		x, ok := sigEval(t.Args[0], asg)
		if !ok {
			return nil, false
		}
		return wrapToType(x, t.Typ), true
	case "bin":
		x, ok1 := sigEval(t.Args[0], asg)
		y, ok2 := sigEval(t.Args[1], asg)
		if !ok1 || !ok2 {
			return nil, false
		}
		// reuse evalTerm's operator table on constants
		tt := &T{K: "bin", Op: t.Op, Typ: t.Typ, Args: []*T{{K: "const", C: constant.Make(x)}, {K: "const", C: constant.Make(y)}}}
		return evalTerm(tt, nil)
	}
	return evalTerm(t, asg)
}

// errCodeName: the errs.ErrorCode constant name a path's error is built with.
func errLeaf(c *Ctx, d *DPath) string {
	rd := returnDesc(d)
	if rd != "return err" {
		return strings.TrimPrefix(rd, "return ")
	}
	for _, ins := range pathInstrs(d) {
		call, ok := ins.(*ssa.Call)
		if !ok {
			continue
		}
		sc := call.Call.StaticCallee()
		if sc == nil || sc.Name() != "NewError" || len(call.Call.Args) == 0 {
			continue
		}
		if k, ok := call.Call.Args[0].(*ssa.Const); ok && k.Value != nil {
			if pk := c.P.Pkgs[modPath+"/bscript/interpreter/errs"]; pk != nil {
				for _, n := range pk.Types.Scope().Names() {
					if cn, ok := pk.Types.Scope().Lookup(n).(*types.Const); ok && types.Identical(cn.Type(), k.Type()) && constant.Compare(cn.Val(), token.EQL, k.Value) {
						return n
					}
				}
			}
			return "code" + k.Value.ExactString()
		}
	}
	return "err"
}

func pkgConst(c *Ctx, pkgSuffix, name string) int64 {
	pk := c.P.Pkgs[modPath+"/"+pkgSuffix]
	if pk == nil {
		return -1
	}
	cn, ok := pk.Types.Scope().Lookup(name).(*types.Const)
	if !ok {
		return -1
	}
	v, _ := constant.Int64Val(constant.ToInt(cn.Val()))
	return v
}

// gridDecide evaluates the function's decision structure for one assignment of its base atoms.
func gridDecide(c *Ctx, paths []*DPath, asg map[string]*big.Int) (string, error) {
	leaf, n := "", 0
	for _, d := range paths {
		holds := true
		for _, pc := range d.Conds {
			v, ok := sigEval(pc.Cond, asg)
			if !ok {
				return "", fmt.Errorf("condition %s cannot be folded over the table's atoms", shorten(atomName(pc.Cond), 160))
			}
			if (v.Sign() != 0) != pc.Truth {
				holds = false
				break
			}
		}
		if !holds {
			continue
		}
		l := errLeaf(c, d)
		if n > 0 && l != leaf {
			return "", fmt.Errorf("two paths with different results hold for one assignment")
		}
		leaf = l
		n++
	}
	if n == 0 {
		return "", fmt.Errorf("no path holds")
	}
	return leaf, nil
}

func ruleTEnc(c *Ctx) {
	strict := pkgConst(c, "bscript/interpreter/scriptflag", "VerifyStrictEncoding")
	forkid := pkgConst(c, "bscript/interpreter/scriptflag", "EnableSighashForkID")
	bip143 := pkgConst(c, "bscript/interpreter/scriptflag", "VerifyBip143SigHash")
	flagAtom := func(k int64) string { return fmt.Sprintf("(*bscript/interpreter.thread).hasFlag(p0, %d)", k) }
	// --- checkHashTypeEncoding
	if fn := c.P.Func("bscript/interpreter", "*thread", "checkHashTypeEncoding"); fn != nil {
		paths, err := enumPaths(fn.Blocks[0], nil, nil, 4096)
		if err != nil {
			c.Undecided("T-enc", "checkHashTypeEncoding", fn.Pos(), err.Error())
		} else {
			cells, bad := 0, ""
			for shf := int64(0); shf < 256 && bad == ""; shf++ {
				for s := int64(0); s < 2 && bad == ""; s++ {
					for f := int64(0); f < 2 && bad == ""; f++ {
						asg := map[string]*big.Int{"p1": big.NewInt(shf), flagAtom(strict): big.NewInt(s), flagAtom(forkid): big.NewInt(f), flagAtom(bip143): big.NewInt(0)}
						got, err := gridDecide(c, paths, asg)
						if err != nil {
							c.Undecided("T-enc", "checkHashTypeEncoding", fn.Pos(), err.Error())
							return
						}
						// node: CheckHashTypeEncoding
						want := "nil"
						if s == 1 {
							base := shf &^ (0x40 | 0x80)
							uses := shf&0x40 != 0
							switch {
							case base < 1 || base > 3:
								want = "ErrInvalidSigHashType"
							case f == 0 && uses, f == 1 && !uses:
								want = "ErrIllegalForkID"
							}
						}
						cells++
						if got != want {
							bad = fmt.Sprintf("hash type 0x%02x strict=%d forkid-enabled=%d: code gives %s, the node's rule gives %s", shf, s, f, got, want)
						}
					}
				}
			}
			c.Covered["T-enc:cells:checkHashTypeEncoding"] = cells
			c.Check(bad == "", "T-enc", "checkHashTypeEncoding", fn.Pos(), fmt.Sprintf("decision table equals the node's CheckHashTypeEncoding on all %d cells (256 hash types x strict x forkid-enabled, BIP143 flag off)", cells), "checkHashTypeEncoding differs from the node's rule: "+bad)
		}
	} else {
		c.Undecided("T-enc", "checkHashTypeEncoding", token.NoPos, "not found")
	}
	// --- checkPubKeyEncoding
	if fn := c.P.Func("bscript/interpreter", "*thread", "checkPubKeyEncoding"); fn != nil {
		paths, err := enumPaths(fn.Blocks[0], nil, nil, 4096)
		if err != nil {
			c.Undecided("T-enc", "checkPubKeyEncoding", fn.Pos(), err.Error())
		} else {
			cells, bad := 0, ""
			for _, ln := range []int64{0, 1, 32, 33, 34, 64, 65, 66} {
				for b0 := int64(0); b0 < 8; b0++ {
					for s := int64(0); s < 2; s++ {
						if ln == 0 && b0 != 0 {
							continue
						}
						asg := map[string]*big.Int{"len(p1)": big.NewInt(ln), "p1[0]": big.NewInt(b0), flagAtom(strict): big.NewInt(s)}
						got, err := gridDecide(c, paths, asg)
						if err != nil {
							c.Undecided("T-enc", "checkPubKeyEncoding", fn.Pos(), err.Error())
							return
						}
						want := "ErrPubKeyType"
						if s == 0 || (ln == 33 && (b0 == 2 || b0 == 3)) || (ln == 65 && b0 == 4) {
							want = "nil"
						}
						cells++
						if got != want && bad == "" {
							bad = fmt.Sprintf("len=%d first byte=%d strict=%d: code gives %s, rule gives %s", ln, b0, s, got, want)
						}
					}
				}
			}
			c.Covered["T-enc:cells:checkPubKeyEncoding"] = cells
			c.Check(bad == "", "T-enc", "checkPubKeyEncoding", fn.Pos(), fmt.Sprintf("accepts exactly 33-byte 02/03 and 65-byte 04 keys under the strict flag (%d cells)", cells), "checkPubKeyEncoding differs from the strict-encoding rule: "+bad)
		}
	} else {
		c.Undecided("T-enc", "checkPubKeyEncoding", token.NoPos, "not found")
	}
	// --- checkSignatureEncoding: gate and length window (the DER walk itself is value-level)
	if fn := c.P.Func("bscript/interpreter", "*thread", "checkSignatureEncoding"); fn != nil {
		der := pkgConst(c, "bscript/interpreter/scriptflag", "VerifyDERSignatures")
		lows := pkgConst(c, "bscript/interpreter/scriptflag", "VerifyLowS")
		gate := ""
		mask := int64(-1)
		if first, ok := fn.Blocks[0].Instrs[len(fn.Blocks[0].Instrs)-1].(*ssa.If); ok {
			gate = atomName(newTermEnv().Term(first.Cond))
			// hasAny(t, flags...) — collect the constants of the variadic argument
			for _, ins := range fn.Blocks[0].Instrs {
				if call, isC := ins.(*ssa.Call); isC {
					if sc := call.Call.StaticCallee(); sc != nil && sc.Name() == "hasAny" {
						mask = 0
						for _, v := range appendedValues2(call) {
							if k, isK := v.(*ssa.Const); isK {
								x, _ := constant.Int64Val(constant.ToInt(k.Value))
								mask |= x
							}
						}
					}
				}
			}
		}
		c.Check(mask == der|lows|strict, "T-enc", "checkSignatureEncoding/gate", fn.Pos(), "the DER check runs iff one of DERSIG, LOW_S, STRICTENC is set", fmt.Sprintf("checkSignatureEncoding is gated by flags mask %#x (%s), expected DERSIG|LOW_S|STRICTENC = %#x", mask, shorten(gate, 80), der|lows|strict))
	}
}

// ---- region conditions ----

type regionPath []domCond

// regionPaths: acyclic paths from block from (its terminator's outcome included) to block to.
func regionPaths(from, to *ssa.BasicBlock, limit int) ([]regionPath, bool) {
	var out []regionPath
	ok := true
	var walk func(b *ssa.BasicBlock, acc regionPath, seen map[*ssa.BasicBlock]bool)
	walk = func(b *ssa.BasicBlock, acc regionPath, seen map[*ssa.BasicBlock]bool) {
		if len(out) > limit {
			ok = false
			return
		}
		if b == to && len(acc) > 0 {
			out = append(out, append(regionPath{}, acc...))
			return
		}
		if seen[b] {
			return
		}
		seen[b] = true
		defer func() { seen[b] = false }()
		switch t := b.Instrs[len(b.Instrs)-1].(type) {
		case *ssa.If:
			walk(b.Succs[0], append(acc, domCond{cond: t.Cond, truth: true}), seen)
			walk(b.Succs[1], append(acc, domCond{cond: t.Cond, truth: false}), seen)
		case *ssa.Jump:
			if b.Succs[0] == to {
				out = append(out, append(regionPath{}, acc...))
				return
			}
			walk(b.Succs[0], acc, seen)
		}
	}
	walk(from, nil, map[*ssa.BasicBlock]bool{})
	return out, ok
}

// sigAtomOf names a branch condition: flag(K), has(K), !x, or its canonical term.
func sigAtomOf(v ssa.Value) (atom string, neg bool, hasRecv ssa.Value) {
	return sigAtomOfB(v, nil)
}

func sigAtomOfB(v ssa.Value, bind map[ssa.Value]ssa.Value) (atom string, neg bool, hasRecv ssa.Value) {
	res := func(x ssa.Value) ssa.Value {
		if y, ok := bind[x]; ok {
			return y
		}
		return x
	}
	for {
		if u, ok := v.(*ssa.UnOp); ok && u.Op == token.NOT {
			v = u.X
			neg = !neg
			continue
		}
		break
	}
	if call, ok := v.(*ssa.Call); ok {
		if sc := call.Call.StaticCallee(); sc != nil {
			switch {
			case sc.Name() == "hasFlag" && len(call.Call.Args) == 2:
				if k, ok := res(call.Call.Args[1]).(*ssa.Const); ok {
					return "flag(" + k.Value.ExactString() + ")", neg, nil
				}
			case sc.Name() == "Has" && len(call.Call.Args) == 2:
				if k, ok := res(call.Call.Args[1]).(*ssa.Const); ok {
					return "has(" + k.Value.ExactString() + ")", neg, res(call.Call.Args[0])
				}
			}
		}
	}
	env := newTermEnv()
	env.Sub = bind
	a, flip := canonAtom(atomName(env.Term(v)))
	return a, neg != flip, nil
}

// expandPredicates: a branch on a call to a side-effect-free boolean helper of the module (a
// guard moved into a named predicate) is replaced by the helper's own branch conditions, its
// parameters bound to the call's arguments.
func expandPredicates(paths []regionPath) []regionPath {
	var out []regionPath
	for _, p := range paths {
		alts := []regionPath{{}}
		for _, dc := range p {
			exp, ok := expandPredicate(dc)
			if !ok {
				for i := range alts {
					alts[i] = append(alts[i], dc)
				}
				continue
			}
			var next []regionPath
			for _, a := range alts {
				for _, e := range exp {
					next = append(next, append(append(regionPath{}, a...), e...))
				}
			}
			alts = next
		}
		out = append(out, alts...)
	}
	return out
}

func expandPredicate(dc domCond) ([]regionPath, bool) {
	v, want := dc.cond, dc.truth
	for {
		if u, ok := v.(*ssa.UnOp); ok && u.Op == token.NOT {
			v, want = u.X, !want
			continue
		}
		break
	}
	call, ok := v.(*ssa.Call)
	if !ok {
		return nil, false
	}
	sc := call.Call.StaticCallee()
	if sc == nil || sc.Blocks == nil || sc.Pkg == nil || !strings.HasPrefix(sc.Pkg.Pkg.Path(), modPath) || sc.Name() == "hasFlag" || sc.Name() == "Has" {
		return nil, false
	}
	if r := sc.Signature.Results(); r.Len() != 1 || !types.Identical(r.At(0).Type().Underlying(), types.Typ[types.Bool]) {
		return nil, false
	}
	// side-effect free and loop free: only branches, pure getters and value operations
	for _, b := range sc.Blocks {
		for _, s := range b.Succs {
			if s.Index <= b.Index && s.Dominates(b) {
				return nil, false
			}
		}
		for _, ins := range b.Instrs {
			switch x := ins.(type) {
			case *ssa.If, *ssa.Jump, *ssa.Return, *ssa.Phi, *ssa.UnOp, *ssa.BinOp, *ssa.Convert, *ssa.ChangeType, *ssa.FieldAddr, *ssa.DebugRef:
			case *ssa.Call:
				cc := x.Call.StaticCallee()
				if cc == nil || !(cc.Name() == "hasFlag" || cc.Name() == "Has") {
					return nil, false
				}
			default:
				return nil, false
			}
		}
	}
	bind := map[ssa.Value]ssa.Value{}
	for k, val := range dc.bind {
		bind[k] = val
	}
	for i, p := range sc.Params {
		if i < len(call.Call.Args) {
			a := call.Call.Args[i]
			if b, ok := dc.bind[a]; ok {
				a = b
			}
			bind[p] = a
		}
	}
	var out []regionPath
	var walk func(b, prev *ssa.BasicBlock, acc regionPath, depth int) bool
	walk = func(b, prev *ssa.BasicBlock, acc regionPath, depth int) bool {
		if depth > 40 || len(out) > 64 {
			return false
		}
		switch t := b.Instrs[len(b.Instrs)-1].(type) {
		case *ssa.If:
			return walk(b.Succs[0], b, append(append(regionPath{}, acc...), domCond{t.Cond, true, bind}), depth+1) &&
				walk(b.Succs[1], b, append(append(regionPath{}, acc...), domCond{t.Cond, false, bind}), depth+1)
		case *ssa.Jump:
			return walk(b.Succs[0], b, acc, depth+1)
		case *ssa.Return:
			rv := t.Results[0]
			if ph, ok := rv.(*ssa.Phi); ok && ph.Block() == b && prev != nil {
				for i, p := range b.Preds {
					if p == prev {
						rv = ph.Edges[i]
					}
				}
			}
			if k, ok := rv.(*ssa.Const); ok {
				if constant.BoolVal(k.Value) == want {
					out = append(out, acc)
				}
				return true
			}
			if _, isPhi := rv.(*ssa.Phi); isPhi {
				return false
			}
			out = append(out, append(append(regionPath{}, acc...), domCond{rv, want, bind}))
			return true
		}
		return false
	}
	if !walk(sc.Blocks[0], nil, nil, 0) {
		return nil, false
	}
	return out, true
}

// truthTable of a DNF over the atoms it mentions.
func dnfTable(paths []regionPath) (atoms []string, table map[string]bool, recv map[string]ssa.Value) {
	set := map[string]bool{}
	recv = map[string]ssa.Value{}
	for _, p := range paths {
		for _, dc := range p {
			a, _, r := sigAtomOfB(dc.cond, dc.bind)
			set[a] = true
			if r != nil {
				recv[a] = r
			}
		}
	}
	atoms = keysSorted(set)
	table = map[string]bool{}
	for m := 0; m < 1<<len(atoms); m++ {
		val := map[string]bool{}
		key := ""
		for i, a := range atoms {
			val[a] = m&(1<<i) != 0
			if val[a] {
				key += "1"
			} else {
				key += "0"
			}
		}
		res := false
		for _, p := range paths {
			all := true
			for _, dc := range p {
				a, neg, _ := sigAtomOfB(dc.cond, dc.bind)
				if (val[a] != neg) != dc.truth {
					all = false
					break
				}
			}
			if all {
				res = true
			}
		}
		table[key] = res
	}
	return
}

// lastByteOf: v is Flag(x[len(x)-1]) (possibly through a phi with constants) — returns x.
func lastByteOf(v ssa.Value, depth int) ssa.Value {
	if depth > 6 {
		return nil
	}
	switch x := v.(type) {
	case *ssa.Convert:
		return lastByteOf(x.X, depth+1)
	case *ssa.ChangeType:
		return lastByteOf(x.X, depth+1)
	case *ssa.Phi:
		var found ssa.Value
		for _, e := range x.Edges {
			if _, isK := e.(*ssa.Const); isK {
				continue
			}
			r := lastByteOf(e, depth+1)
			if r == nil || (found != nil && found != r) {
				return nil
			}
			found = r
		}
		return found
	case *ssa.UnOp:
		if x.Op != token.MUL {
			return nil
		}
		ia, ok := x.X.(*ssa.IndexAddr)
		if !ok {
			return nil
		}
		sub, ok := ia.Index.(*ssa.BinOp)
		if !ok || sub.Op != token.SUB {
			return nil
		}
		if k, ok := constInt(sub.Y); !ok || k.Int64() != 1 {
			return nil
		}
		ln, ok := sub.X.(*ssa.Call)
		if !ok || (ln.Call.Args[0] != ia.X && atomName(newTermEnv().Term(ln.Call.Args[0])) != atomName(newTermEnv().Term(ia.X))) {
			return nil // go/ssa does no CSE: two loads of the same field are compared as terms
		}
		return ia.X
	}
	return nil
}

func ruleGLegacy(c *Ctx) {
	forkFlag := pkgConst(c, "bscript/interpreter/scriptflag", "EnableSighashForkID")
	forkBit := pkgConst(c, "sighash", "ForkID")
	codesep := int64(0xab)
	n := 0
	for _, name := range []string{"opcodeCheckSig", "opcodeCheckMultiSig"} {
		fn := c.P.Func("bscript/interpreter", "", name)
		if fn == nil {
			c.Undecided("G-legacy", name, token.NoPos, "not found")
			continue
		}
		var removals []*ssa.Call
		for _, b := range fn.Blocks {
			for _, ins := range b.Instrs {
				if call, ok := ins.(*ssa.Call); ok {
					if sc := call.Call.StaticCallee(); sc != nil && (sc.Name() == "removeOpcodeByData" || sc.Name() == "removeOpcode") {
						removals = append(removals, call)
					}
				}
			}
		}
		byData, bySep := 0, 0
		for _, call := range removals {
			n++
			sc := call.Call.StaticCallee()
			key := name + "/" + sc.Name()
			b := call.Block()
			idom := b.Idom()
			if idom == nil {
				c.Fail("G-legacy", key, call.Pos(), name+" removes from the script code unconditionally")
				continue
			}
			// the controlling region starts at the nearest dominator that branches
			from := idom
			for from != nil {
				if _, isIf := from.Instrs[len(from.Instrs)-1].(*ssa.If); isIf {
					break
				}
				from = from.Idom()
			}
			// widen while the dominator's own condition is one of the two guard atoms
			for from != nil && from.Idom() != nil {
				up := from.Idom()
				iff, isIf := up.Instrs[len(up.Instrs)-1].(*ssa.If)
				if !isIf {
					break
				}
				a, _, _ := sigAtomOf(iff.Cond)
				if strings.HasPrefix(a, "flag(") || strings.HasPrefix(a, "has(") {
					from = up
					continue
				}
				break
			}
			if from == nil {
				c.Fail("G-legacy", key, call.Pos(), name+" removes from the script code unconditionally")
				continue
			}
			paths, ok := regionPaths(from, b, 64)
			if !ok || len(paths) == 0 {
				c.Undecided("G-legacy", key, call.Pos(), "cannot enumerate the conditions guarding the removal")
				continue
			}
			paths = expandPredicates(paths)
			atoms, table, recv := dnfTable(paths)
			fA, hA := fmt.Sprintf("flag(%d)", forkFlag), fmt.Sprintf("has(%d)", forkBit)
			okAtoms := len(atoms) == 2 && atoms[0] == fA && atoms[1] == hA
			// remove <=> !(flag && has): table keys are in atom order [flag, has]
			okTable := okAtoms && table["00"] && table["10"] && table["01"] && !table["11"]
			c.Check(okTable, "G-legacy", key+"/guard", call.Pos(), "removal happens exactly when the FORKID digest is not in force: !(flag(SIGHASH_FORKID enabled) && hashtype.has(FORKID))",
				fmt.Sprintf("%s removes signatures/code separators from the script code under %v (truth table %v); the legacy rule is exactly !(forkid enabled && hash type has FORKID), as in the sibling opcode and the node's CleanupScriptCode", name, atoms, table))
			if sc.Name() == "removeOpcodeByData" {
				byData++
				sig := call.Call.Args[1]
				src := lastByteOf(recv[hA], 0)
				same := src != nil && (src == sig || atomName(newTermEnv().Term(src)) == atomName(newTermEnv().Term(sig)))
				c.Check(same, "G-legacy", key+"/hashtype-of-removed-signature", call.Pos(), "the hash type tested is the last byte of the signature being removed", name+" decides the removal on a hash type that is not the last byte of the signature it removes")
			} else {
				bySep++
				k, isK := call.Call.Args[1].(*ssa.Const)
				v := int64(-1)
				if isK {
					v, _ = constant.Int64Val(constant.ToInt(k.Value))
				}
				c.Check(v == codesep, "G-legacy", key+"/opcode", call.Pos(), "the opcode removed is OP_CODESEPARATOR", fmt.Sprintf("%s removes opcode %#x from the script code, expected OP_CODESEPARATOR", name, v))
			}
		}
		c.Check(byData == 1 && bySep == 1, "G-legacy", name+"/removals", fn.Pos(), "one signature removal and one separator removal site", fmt.Sprintf("%s has %d signature-removal and %d separator-removal sites, expected one each", name, byData, bySep))
	}
	c.MinInstances("G-legacy", n, 4)
}

// ruleSSub: thread.subScript returns scripts[scriptIdx][lastCodeSep+1:] once a separator has run and the
// whole script otherwise; opcodeCodeSeparator records the current offset.
func ruleSSub(c *Ctx) {
	ruleSSubGrid(c)
	ruleSSubUse(c)
}

// ruleSSubGrid: where the script code starts (also the premise of the trusted slice site of subScript in C07).
func ruleSSubGrid(c *Ctx) {
	fn := c.P.Func("bscript/interpreter", "*thread", "subScript")
	if fn == nil {
		c.Undecided("S-sub", "thread.subScript", token.NoPos, "not found")
		return
	}
	paths, err := feasiblePaths(fn, 200)
	if err != nil {
		c.Undecided("S-sub", "thread.subScript", fn.Pos(), err.Error())
		return
	}
	// grid over lastCodeSep in {0,1,5}, len(script) in {0,1,7}, first opcode is a separator or not
	const SEP = "p0.scripts[p0.scriptIdx][0].op.val"
	bad := ""
	cells := 0
	for _, lcs := range []int64{0, 1, 5} {
		for _, ln := range []int64{0, 1, 7} {
			for _, first := range []int64{0xab, 0x51} {
				if lcs >= ln && lcs != 0 {
					continue // lastCodeSep is the offset of an executed opcode (S-reset)
				}
				if ln == 0 && first == 0xab {
					continue
				}
				asg := map[string]*big.Int{"p0.lastCodeSep": big.NewInt(lcs), "len(p0.scripts[p0.scriptIdx])": big.NewInt(ln), SEP: big.NewInt(first)}
				var lo string
				hits := 0
				for _, d := range paths {
					holds := true
					for _, pc := range d.Conds {
						v, ok := sigEval(pc.Cond, asg)
						if !ok {
							c.Undecided("S-sub", "thread.subScript", fn.Pos(), "condition outside the table: "+atomName(pc.Cond))
							return
						}
						if (v.Sign() != 0) != pc.Truth {
							holds = false
						}
					}
					if !holds {
						continue
					}
					hits++
					rt := d.Env.Term(d.Ret.Results[0])
					if atomName(rt) == "p0.scripts[p0.scriptIdx]" {
						lo = "0" // the whole script
						continue
					}
					if rt.K != "slice" || atomName(rt.Args[0]) != "p0.scripts[p0.scriptIdx]" {
						c.Fail("S-sub", "thread.subScript", fn.Pos(), "subScript does not return a tail of the current script: "+atomName(rt))
						return
					}
					if v, ok := sigEval(rt.Args[1], asg); ok {
						lo = v.String()
					} else {
						lo = atomName(rt.Args[1])
					}
				}
				want := "0"
				if lcs > 0 || (first == 0xab && ln > 0) {
					want = fmt.Sprint(lcs + 1)
				}
				cells++
				if hits != 1 || lo != want {
					if bad == "" {
						bad = fmt.Sprintf("lastCodeSep=%d, script length %d, first opcode %#x: script code starts at %s (paths holding: %d), expected %s", lcs, ln, first, lo, hits, want)
					}
				}
			}
		}
	}
	c.Covered["S-sub:cells"] = cells
	c.Check(bad == "", "S-sub", "thread.subScript", fn.Pos(), fmt.Sprintf("script code starts after the last executed OP_CODESEPARATOR, at 0 when none ran (%d cells, including a separator at offset 0)", cells), "subScript's start of the script code is wrong: "+bad)
}

func ruleSSubUse(c *Ctx) {
	// OP_CODESEPARATOR records its own offset
	if h := c.P.Func("bscript/interpreter", "", "opcodeCodeSeparator"); h != nil {
		ok := false
		for _, b := range h.Blocks {
			for _, ins := range b.Instrs {
				if st, isSt := threadFieldStore(ins, "lastCodeSep"); isSt {
					ok = atomName(newTermEnv().Term(st.Val)) == "p1.scriptOff"
				}
			}
		}
		c.Check(ok, "S-sub", "opcodeCodeSeparator", h.Pos(), "records t.scriptOff as the separator position", "OP_CODESEPARATOR no longer records the current script offset")
	}
	// both signature opcodes take their script code from subScript and hash a clone
	for _, name := range []string{"opcodeCheckSig", "opcodeCheckMultiSig"} {
		h := c.P.Func("bscript/interpreter", "", name)
		if h == nil {
			continue
		}
		var sub, unparse, clone, hash *ssa.Call
		var storeScript *ssa.Store
		view := viewOf(h) // with the helpers the handler was split into
		{
			for _, ins := range view.Instrs {
				switch x := ins.(type) {
				case *ssa.Call:
					if sc := x.Call.StaticCallee(); sc != nil {
						switch sc.Name() {
						case "subScript":
							sub = x
						case "Clone":
							clone = x
						case "CalcInputSignatureHash":
							hash = x
						}
					} else if x.Call.IsInvoke() && x.Call.Method.Name() == "Unparse" {
						unparse = x
					}
				case *ssa.Store:
					if fa, ok := x.Addr.(*ssa.FieldAddr); ok && fieldName(fa.X.Type(), fa.Field) == "PreviousTxScript" {
						storeScript = x
					}
				}
			}
		}
		ok := sub != nil && unparse != nil && clone != nil && hash != nil && storeScript != nil
		detail := ""
		if ok {
			env := view.Env
			// Unparse's argument derives from subScript (through the removals)
			derives := false
			var from func(v ssa.Value, d int) bool
			from = func(v ssa.Value, d int) bool {
				if d > 8 {
					return false
				}
				v = env.Val(v) // a helper's parameter is the argument it was called with
				if v == ssa.Value(sub) {
					return true
				}
				switch y := v.(type) {
				case *ssa.Phi:
					for _, e := range y.Edges {
						if from(e, d+1) {
							return true
						}
					}
				case *ssa.Call:
					if sc := y.Call.StaticCallee(); sc != nil && strings.HasPrefix(sc.Name(), "removeOpcode") {
						return from(y.Call.Args[0], d+1)
					}
				}
				return false
			}
			derives = from(unparse.Call.Args[0], 0)
			// the unparsed script is stored into clone.Inputs[t.inputIdx].PreviousTxScript and the clone is hashed with (uint32(t.inputIdx), shf)
			st := atomName(env.Term(storeScript.Addr))
			hv := atomName(env.Term(hash.Call.Args[0]))
			idx := atomName(env.Term(hash.Call.Args[1]))
			okStore := strings.Contains(st, "Clone(p1.tx).Inputs[p1.inputIdx].PreviousTxScript") ||
				// the same element through the bounds-checked accessor (which returns tx.Inputs[i] or nil)
				(strings.Contains(st, "(*bt.Tx).InputIdx((*bt.Tx).Clone(p1.tx), p1.inputIdx).PreviousTxScript") && inputIdxIsElement(c))
			okHash := strings.Contains(hv, "Clone(p1.tx)") && idx == "uint32(p1.inputIdx)"
			okShf := lastByteOf(env.Val(hash.Call.Args[2]), 0) != nil
			// the hash verified is the direct result of this digest call
			okVerify := false
			{
				for _, ins := range view.Instrs {
					if vc, isC := ins.(*ssa.Call); isC {
						if sc := vc.Call.StaticCallee(); sc != nil && sc.Name() == "Verify" && len(vc.Call.Args) >= 2 {
							if ex, isEx := env.Val(vc.Call.Args[1]).(*ssa.Extract); isEx && ex.Tuple == ssa.Value(hash) && ex.Index == 0 {
								okVerify = true
							}
						}
					}
				}
			}
			if !okVerify {
				detail = "the hash handed to Verify is not the direct result of the digest call for this signature; "
			}
			ok = derives && okStore && okHash && okShf && okVerify
			detail += fmt.Sprintf("script code derives from subScript: %v; stored at %s; hashed %s index %s; hash type is the signature's last byte: %v", derives, shorten(st, 80), shorten(hv, 40), idx, okShf)
		}
		c.Check(ok, "S-sub", name+"/digest-inputs", h.Pos(), "digest = CalcInputSignatureHash on a clone whose checked input carries Unparse(subScript minus legacy removals), with the signature's own hash type: "+detail,
			name+" no longer hashes a clone carrying the script code derived from subScript with the signature's hash type: "+detail)
	}
}

// ruleSEncOrder: S-enc, S-false, S-nullf.
func ruleSEncOrder(c *Ctx) {
	strict := pkgConst(c, "bscript/interpreter/scriptflag", "VerifyNullFail")
	dummyFlag := pkgConst(c, "bscript/interpreter/scriptflag", "StrictMultiSig")
	for _, name := range []string{"opcodeCheckSig", "opcodeCheckMultiSig"} {
		fn := c.P.Func("bscript/interpreter", "", name)
		if fn == nil {
			c.Undecided("S-enc", name, token.NoPos, "not found")
			continue
		}
		calls := map[string][]*ssa.Call{}
		for _, b := range fn.Blocks {
			for _, ins := range b.Instrs {
				if call, ok := ins.(*ssa.Call); ok {
					if sc := call.Call.StaticCallee(); sc != nil {
						calls[sc.Name()] = append(calls[sc.Name()], call)
					}
				}
			}
		}
		verifies := calls["Verify"]
		c.Check(len(verifies) == 1, "S-enc", name+"/one-verify", fn.Pos(), "one signature verification site", fmt.Sprintf("%s has %d Verify sites", name, len(verifies)))
		if len(verifies) != 1 {
			continue
		}
		vf := verifies[0]
		// error of a call propagated: the block after the call tests err != nil and returns it
		propagated := func(call *ssa.Call) bool {
			// find If on (call != nil) in the call's block; its true branch returns that value
			b := call.Block()
			iff, ok := b.Instrs[len(b.Instrs)-1].(*ssa.If)
			if !ok {
				return false
			}
			bo, ok := iff.Cond.(*ssa.BinOp)
			if !ok || bo.Op != token.NEQ || bo.X != ssa.Value(call) {
				return false
			}
			r, ok := b.Succs[0].Instrs[len(b.Succs[0].Instrs)-1].(*ssa.Return)
			return ok && r.Results[len(r.Results)-1] == ssa.Value(call)
		}
		for _, chk := range []string{"checkHashTypeEncoding", "checkSignatureEncoding", "checkPubKeyEncoding"} {
			cs := calls[chk]
			ok := len(cs) == 1 && propagated(cs[0])
			if !ok && chk == "checkPubKeyEncoding" && len(cs) > 1 {
				// the check placed in several arms (first attempt / retried signature): each call hands its error
				// back, and no way from the function's entry or from the head of a loop around the verification
				// reaches the verification without passing one of them
				all := true
				avoid := map[*ssa.BasicBlock]bool{}
				for _, cl := range cs {
					all = all && propagated(cl)
					avoid[cl.Block()] = true
				}
				starts := []*ssa.BasicBlock{fn.Blocks[0]}
				for _, h := range dominatingLoopHeaders(vf.Block()) {
					starts = append(starts, h)
				}
				for _, st := range starts {
					seen := map[*ssa.BasicBlock]bool{}
					var walk func(b *ssa.BasicBlock) bool
					walk = func(b *ssa.BasicBlock) bool {
						for _, sc := range b.Succs {
							if avoid[sc] || seen[sc] {
								continue
							}
							if sc == vf.Block() {
								return true
							}
							seen[sc] = true
							if walk(sc) {
								return true
							}
						}
						return false
					}
					if walk(st) {
						all = false
					}
				}
				c.Check(all, "S-enc", name+"/"+chk, fn.Pos(), chk+" runs on every way to the verification and its error is returned", name+" can verify a signature without "+chk+" having run with its error returned (strict-encoding failures must be hard errors)")
				continue
			}
			if ok && name == "opcodeCheckSig" {
				ok = cs[0].Block().Dominates(vf.Block())
			}
			if ok && name == "opcodeCheckMultiSig" && chk == "checkPubKeyEncoding" {
				ok = cs[0].Block().Dominates(vf.Block())
			}
			// in CHECKMULTISIG the two signature checks run once per signature (parsed flag); they sit in
			// the !parsed branch whose other arm reuses the stored parse result
			if ok && name == "opcodeCheckMultiSig" && chk != "checkPubKeyEncoding" {
				// every path from the loop header to Verify passes the check or the 'already parsed' test
				ok = guardedByParsedFlag(cs[0], vf)
			}
			c.Check(ok, "S-enc", name+"/"+chk, fn.Pos(), chk+" runs before the verification and its error is returned", name+" can verify a signature without "+chk+" having run with its error returned (strict-encoding failures must be hard errors)")
		}
		// S-false: parse failures
		for _, p := range []string{"ParsePubKey", "ParseDERSignature", "ParseSignature"} {
			for _, call := range calls[p] {
				ok, why := parseFailureSoft(fn, call, name == "opcodeCheckMultiSig")
				c.Check(ok, "S-false", name+"/"+p, call.Pos(), "a "+p+" failure gives false / moves on, never a script error", name+": "+why)
			}
		}
		c.Check(len(calls["ParsePubKey"]) == 1 && len(calls["ParseDERSignature"]) == 1 && len(calls["ParseSignature"]) == 1, "S-false", name+"/parsers", fn.Pos(), "one site each for ParsePubKey, ParseDERSignature, ParseSignature", name+" no longer has exactly one site for each parser")
		// DER parser chosen iff STRICTENC or DERSIG
		if len(calls["ParseDERSignature"]) == 1 {
			b := calls["ParseDERSignature"][0].Block()
			okSel := false
			for _, dc := range dominatingConds(b) {
				if call, isC := dc.cond.(*ssa.Call); isC && dc.truth {
					if sc := call.Call.StaticCallee(); sc != nil && sc.Name() == "hasAny" {
						mask := int64(0)
						for _, v := range appendedValues2(call) {
							if k, isK := v.(*ssa.Const); isK {
								x, _ := constant.Int64Val(constant.ToInt(k.Value))
								mask |= x
							}
						}
						okSel = mask == pkgConst(c, "bscript/interpreter/scriptflag", "VerifyStrictEncoding")|pkgConst(c, "bscript/interpreter/scriptflag", "VerifyDERSignatures")
					}
				}
			}
			c.Check(okSel, "S-false", name+"/der-parser-selection", calls["ParseDERSignature"][0].Pos(), "strict DER parsing iff STRICTENC or DERSIG", name+" selects the DER parser under a different flag set")
		}
		if name == "opcodeCheckSig" {
			// S-nullf: ErrNullFail exactly under !ok && flag(NULLFAIL) && len(sig) > 0; PushBool(ok) otherwise
			var nf *ssa.Call
			for _, call := range calls["NewError"] {
				if k, ok := call.Call.Args[0].(*ssa.Const); ok && k.Value != nil {
					if x, _ := constant.Int64Val(constant.ToInt(k.Value)); x == pkgConst(c, "bscript/interpreter/errs", "ErrNullFail") {
						nf = call
					}
				}
			}
			if nf == nil {
				c.Fail("S-nullf", name+"/nullfail", fn.Pos(), "the NULLFAIL error is never raised")
			} else {
				paths, _ := regionPaths(vf.Block(), nf.Block(), 32)
				atoms, table, _ := dnfTable(paths)
				want := fmt.Sprintf("[(len(%s) == 0) %s flag(%d)]", "SIG", "VERIFY", strict)
				var norm []string
				for _, a := range atoms {
					switch {
					case strings.HasPrefix(a, "(len(") && strings.HasSuffix(a, "== 0)"):
						norm = append(norm, "(len(SIG) == 0)")
					case strings.Contains(a, ".Verify("):
						norm = append(norm, "VERIFY")
					default:
						norm = append(norm, a)
					}
				}
				sort.Strings(norm)
				// exactly one satisfying row: !VERIFY, flag, !(len == 0)
				sat := 0
				for _, v := range table {
					if v {
						sat++
					}
				}
				ok := fmt.Sprint(norm) == want && sat == 1
				// the satisfying row has VERIFY false
				if ok {
					for key, v := range table {
						if v {
							for i, a := range atoms {
								isZero := strings.Contains(a, ".Verify(") || strings.HasPrefix(a, "(len(")
								if isZero && key[i] != '0' {
									ok = false
								}
								if !isZero && key[i] != '1' {
									ok = false
								}
							}
						}
					}
				}
				c.Check(ok, "S-nullf", name+"/nullfail", nf.Pos(), "ErrNullFail exactly when verification failed, NULLFAIL is set and the signature is not empty", fmt.Sprintf("the NULLFAIL condition changed: atoms %v, table %v", norm, table))
			}
			// the pushed result on the normal path is Verify's result
			okPush := false
			for _, call := range calls["PushBool"] {
				if call.Call.Args[1] == ssa.Value(vf) {
					okPush = true
				}
			}
			c.Check(okPush, "S-nullf", name+"/result", fn.Pos(), "the value pushed is the verification result", name+" no longer pushes the result of Verify")
		} else {
			// NULLDUMMY
			var nd *ssa.Call
			for _, call := range calls["NewError"] {
				if k, ok := call.Call.Args[0].(*ssa.Const); ok && k.Value != nil {
					if x, _ := constant.Int64Val(constant.ToInt(k.Value)); x == pkgConst(c, "bscript/interpreter/errs", "ErrSigNullDummy") {
						nd = call
					}
				}
			}
			ok := false
			detail := "no ErrSigNullDummy site"
			if nd != nil {
				var cs []string
				for _, dc := range dominatingConds(nd.Block()) {
					a, neg, _ := sigAtomOf(dc.cond)
					if strings.HasPrefix(a, "flag(") || strings.HasPrefix(a, "(len(") {
						if neg == dc.truth {
							a = "!" + a
						}
						cs = append(cs, a)
					}
				}
				sort.Strings(cs)
				detail = strings.Join(cs, " && ")
				okDummy := false
				for _, x := range cs {
					if strings.HasPrefix(x, "!(len(") && strings.HasSuffix(x, "== 0)") {
						okDummy = true
					}
				}
				okFlag := false
				for _, x := range cs {
					if x == fmt.Sprintf("flag(%d)", dummyFlag) {
						okFlag = true
					}
				}
				ok = okDummy && okFlag && nd.Block().Dominates(vf.Block()) == false && dominatesViaSibling(nd.Block(), vf.Block())
			}
			c.Check(ok, "S-nullf", name+"/nulldummy", fn.Pos(), "ErrSigNullDummy under the STRICT_MULTISIG flag and a non-empty dummy, tested before any signature is verified: "+detail, name+": the null-dummy rule changed ("+detail+")")
		}
	}
}

// dominatesViaSibling: the If that guards block a (error branch) dominates block b (the check comes first).
func dominatesViaSibling(a, b *ssa.BasicBlock) bool {
	for x := a; x != nil; x = x.Idom() {
		if x != a && x.Dominates(b) {
			if _, ok := x.Instrs[len(x.Instrs)-1].(*ssa.If); ok {
				return true
			}
		}
	}
	return false
}

// guardedByParsedFlag: in OP_CHECKMULTISIG the signature checks sit in the branch taken when
// sigInfo.parsed is false; the other branch uses the stored parse result. Both join before Verify.
func guardedByParsedFlag(chk, vf *ssa.Call) bool {
	for _, dc := range dominatingConds(chk.Block()) {
		t := atomName(newTermEnv().Term(dc.cond))
		if strings.HasSuffix(t, ".parsed") {
			// the If block dominates Verify
			if iff := dc.cond.Referrers(); iff != nil {
				for _, r := range *iff {
					if i, isIf := r.(*ssa.If); isIf && i.Block().Dominates(vf.Block()) {
						return true
					}
				}
			}
		}
		if u, ok := dc.cond.(*ssa.UnOp); ok && u.Op == token.NOT {
			if strings.HasSuffix(atomName(newTermEnv().Term(u.X)), ".parsed") && u.Referrers() != nil {
				for _, r := range *u.Referrers() {
					if i, isIf := r.(*ssa.If); isIf && i.Block().Dominates(vf.Block()) {
						return true
					}
				}
			}
		}
	}
	return false
}

// parseFailureSoft: on the error branch of a parser call the handler pushes false and returns nil
// (CHECKSIG) or continues with the next key (CHECKMULTISIG): no error return is reachable before the
// loop header / function exit.
func parseFailureSoft(fn *ssa.Function, call *ssa.Call, multi bool) (bool, string) {
	// the error value: extract #1, possibly merged by a phi (two parsers)
	var errVals []ssa.Value
	if call.Referrers() != nil {
		for _, r := range *call.Referrers() {
			if ex, ok := r.(*ssa.Extract); ok && ex.Index == 1 {
				errVals = append(errVals, ex)
				if ex.Referrers() != nil {
					for _, rr := range *ex.Referrers() {
						if ph, ok := rr.(*ssa.Phi); ok {
							errVals = append(errVals, ph)
						}
					}
				}
			}
		}
	}
	for _, b := range fn.Blocks {
		iff, ok := b.Instrs[len(b.Instrs)-1].(*ssa.If)
		if !ok {
			continue
		}
		bo, ok := iff.Cond.(*ssa.BinOp)
		if !ok || bo.Op != token.NEQ {
			continue
		}
		match := false
		for _, ev := range errVals {
			if bo.X == ev {
				match = true
			}
		}
		if !match {
			continue
		}
		fail := b.Succs[0]
		if multi {
			// continue: the branch leads back to the loop header without returning
			cur := fail
			for i := 0; i < 4; i++ {
				if _, isRet := cur.Instrs[len(cur.Instrs)-1].(*ssa.Return); isRet {
					return false, "a parse failure returns from OP_CHECKMULTISIG instead of trying the next key"
				}
				if isLoopHeader(cur) {
					return true, ""
				}
				if len(cur.Succs) != 1 {
					break
				}
				cur = cur.Succs[0]
			}
			return isLoopHeader(cur), "a parse failure does not continue with the next key"
		}
		// CHECKSIG: PushBool(false) then return nil
		pushedFalse := false
		for _, ins := range fail.Instrs {
			if pc, ok := ins.(*ssa.Call); ok {
				if sc := pc.Call.StaticCallee(); sc != nil && sc.Name() == "PushBool" {
					if k, ok := pc.Call.Args[1].(*ssa.Const); ok && k.Value != nil && !constant.BoolVal(k.Value) {
						pushedFalse = true
					}
				}
			}
		}
		r, ok := fail.Instrs[len(fail.Instrs)-1].(*ssa.Return)
		if !ok {
			return false, "the parse-failure branch does not return"
		}
		k, isK := r.Results[len(r.Results)-1].(*ssa.Const)
		if !pushedFalse || !isK || k.Value != nil {
			return false, "a parse failure is reported as a script error or does not push false"
		}
		return true, ""
	}
	return false, "no test of the parser's error found"
}

// ruleSMulti: the in-order matching loop of OP_CHECKMULTISIG. The loop that contains the Verify call
// carries four counters; their update pattern is the algorithm:
//
//	key index      starts at -1 and is incremented on every iteration (before any 'continue')
//	keys left      is decremented on every iteration
//	sig index      starts at 0 and is incremented only after a successful Verify
//	sigs left      is decremented only after a successful Verify
//
// so a key is never reused for a later signature and signatures match keys in order. The key and the
// signature handed to Verify are pubKeys[key index] and signatures[sig index]; running out of keys
// (sigs left > keys left) ends the loop with success = false.
func ruleSMulti(c *Ctx) {
	fn := c.P.Func("bscript/interpreter", "", "opcodeCheckMultiSig")
	if fn == nil {
		c.Undecided("S-multi", "opcodeCheckMultiSig", token.NoPos, "not found")
		return
	}
	var vf *ssa.Call
	for _, b := range fn.Blocks {
		for _, ins := range b.Instrs {
			if call, ok := ins.(*ssa.Call); ok {
				if sc := call.Call.StaticCallee(); sc != nil && sc.Name() == "Verify" {
					vf = call
				}
			}
		}
	}
	if vf == nil {
		c.Undecided("S-multi", "opcodeCheckMultiSig/loop", fn.Pos(), "no Verify call in the handler (matching loop moved elsewhere: not recognised)")
		return
	}
	var header *ssa.BasicBlock
	for x := vf.Block(); x != nil; x = x.Idom() {
		if isLoopHeader(x) {
			header = x
			break
		}
	}
	if header == nil {
		c.Fail("S-multi", "opcodeCheckMultiSig/loop", vf.Pos(), "signature verification is not inside the key-matching loop")
		return
	}
	// the Verify-true block
	var okBlock *ssa.BasicBlock
	if vf.Referrers() != nil {
		for _, r := range *vf.Referrers() {
			if iff, isIf := r.(*ssa.If); isIf && iff.Cond == ssa.Value(vf) {
				okBlock = iff.Block().Succs[0]
			}
		}
	}
	type counter struct {
		ph       *ssa.Phi
		start    string
		uncond   bool // every back edge carries phi+step
		onVerify bool // changes only in the Verify-true block
		step     int64
	}
	var counters []counter
	for _, ins := range header.Instrs {
		ph, isPhi := ins.(*ssa.Phi)
		if !isPhi {
			break
		}
		if b, isB := ph.Type().Underlying().(*types.Basic); !isB || b.Info()&types.IsInteger == 0 {
			continue
		}
		ct := counter{ph: ph, uncond: true, onVerify: true}
		changed := 0
		for i, p := range header.Preds {
			e := ph.Edges[i]
			if !header.Dominates(p) {
				ct.start = canonTerm(newTermEnv().Term(e))
				continue
			}
			if e == ssa.Value(ph) {
				ct.uncond = false
				continue
			}
			bo, isBo := e.(*ssa.BinOp)
			if !isBo || bo.X != ssa.Value(ph) {
				ct.uncond, ct.onVerify = false, false
				continue
			}
			k, isK := constInt(bo.Y)
			if !isK || k.Int64() != 1 || (bo.Op != token.ADD && bo.Op != token.SUB) {
				ct.uncond, ct.onVerify = false, false
				continue
			}
			ct.step = 1
			if bo.Op == token.SUB {
				ct.step = -1
			}
			changed++
			if okBlock == nil || !okBlock.Dominates(bo.Block()) {
				ct.onVerify = false
			}
		}
		if changed == 0 {
			continue
		}
		if ct.uncond {
			ct.onVerify = false
		}
		counters = append(counters, ct)
	}
	var keyIdx, sigIdx, keysLeft, sigsLeft *counter
	for i := range counters {
		ct := &counters[i]
		switch {
		case ct.uncond && ct.step == 1 && ct.start == "-1":
			keyIdx = ct
		case ct.uncond && ct.step == -1:
			keysLeft = ct
		case ct.onVerify && ct.step == 1 && ct.start == "0":
			sigIdx = ct
		case ct.onVerify && ct.step == -1:
			sigsLeft = ct
		}
	}
	desc := func() string {
		var ss []string
		for _, ct := range counters {
			ss = append(ss, fmt.Sprintf("%s: start %s step %+d every-iteration=%v only-after-verify=%v", ct.ph.Comment, ct.start, ct.step, ct.uncond, ct.onVerify))
		}
		return strings.Join(ss, "; ")
	}
	c.Check(keyIdx != nil && keysLeft != nil && sigIdx != nil && sigsLeft != nil && len(counters) == 4, "S-multi", "opcodeCheckMultiSig/counters", header.Instrs[0].Pos(),
		"key index and keys-left advance on every iteration; signature index and signatures-left only after a successful Verify: "+desc(),
		"the key-matching loop no longer advances the key on every iteration and the signature only after a successful verification (a key could satisfy two signatures, or order is not enforced): "+desc())
	if keyIdx == nil || sigIdx == nil || keysLeft == nil || sigsLeft == nil {
		return
	}
	// the key and signature verified are indexed by those counters (+1: the key index is incremented first)
	usedKey, usedSig := false, false
	for _, b := range fn.Blocks {
		if !header.Dominates(b) {
			continue
		}
		for _, ins := range b.Instrs {
			ia, ok := ins.(*ssa.IndexAddr)
			if !ok {
				continue
			}
			if bo, isBo := ia.Index.(*ssa.BinOp); isBo && bo.Op == token.ADD && bo.X == ssa.Value(keyIdx.ph) {
				usedKey = true
			}
			if ia.Index == ssa.Value(sigIdx.ph) {
				usedSig = true
			}
		}
	}
	c.Check(usedKey && usedSig, "S-multi", "opcodeCheckMultiSig/indexing", header.Instrs[0].Pos(), "the pair tried is pubKeys[key index], signatures[signature index]", "the key or signature tried is not selected by the loop's key / signature index")
	// running out of keys: sigs left > keys left (after the decrement) -> success=false and leave
	okExit := false
	for _, b := range fn.Blocks {
		iff, ok := b.Instrs[len(b.Instrs)-1].(*ssa.If)
		if !ok || !header.Dominates(b) {
			continue
		}
		bo, ok := iff.Cond.(*ssa.BinOp)
		if !ok || bo.Op != token.GTR || bo.X != ssa.Value(sigsLeft.ph) {
			continue
		}
		if dec, isDec := bo.Y.(*ssa.BinOp); isDec && dec.Op == token.SUB && dec.X == ssa.Value(keysLeft.ph) {
			// true branch leaves the loop
			leaves := true
			for x := b.Succs[0]; ; {
				if header.Dominates(x) && x != header {
					in := false
					for _, p := range header.Preds {
						if header.Dominates(p) && x.Dominates(p) {
							in = true
						}
					}
					if in {
						leaves = false
					}
				}
				break
			}
			okExit = leaves
		}
	}
	c.Check(okExit, "S-multi", "opcodeCheckMultiSig/out-of-keys", header.Instrs[0].Pos(), "more signatures left than keys left ends the loop with failure", "the loop no longer stops with failure when more signatures than keys remain")
	// the pushed result is the loop's success flag: true unless that exit was taken
	okRes := false
	for _, b := range fn.Blocks {
		for _, ins := range b.Instrs {
			if call, ok := ins.(*ssa.Call); ok {
				if sc := call.Call.StaticCallee(); sc != nil && sc.Name() == "PushBool" {
					if ph, isPh := call.Call.Args[1].(*ssa.Phi); isPh && len(ph.Edges) == 2 {
						vals := map[string]bool{}
						for _, e := range ph.Edges {
							if k, isK := e.(*ssa.Const); isK && k.Value != nil {
								vals[k.Value.ExactString()] = true
							}
						}
						if vals["true"] && vals["false"] {
							okRes = true
						}
					}
				}
			}
		}
	}
	c.Check(okRes, "S-multi", "opcodeCheckMultiSig/result", fn.Pos(), "the pushed result is the loop's success flag (true when every signature found its key, false when keys ran out)", "OP_CHECKMULTISIG no longer pushes the matching loop's success flag")
}

// inputIdxIsElement: every non-nil result of Tx.InputIdx(i) is tx.Inputs[i].
func inputIdxIsElement(c *Ctx) bool {
	fn := c.P.Func("", "*Tx", "InputIdx")
	if fn == nil {
		return false
	}
	paths, err := feasiblePaths(fn, 200)
	if err != nil {
		return false
	}
	n := 0
	for _, d := range paths {
		if d.EndKind != "return" || d.Ret == nil || len(d.Ret.Results) != 1 {
			return false
		}
		rt := d.Env.Term(d.Ret.Results[0])
		if rt.K == "const" && rt.C == nil {
			continue
		}
		n++
		if atomName(rt) != "p0.Inputs[p1]" {
			return false
		}
	}
	return n > 0
}
