package main

// E-use: error discipline. In every module function reachable from a property's entry points, the error a
// call returns is looked at: the error value (the call's value, or the component of its result tuple) is read by
// some instruction - compared, returned, stored, passed on. An error that is assigned to a variable and then
// overwritten or left unread (the "if err != nil { return ... }" after the call was dropped) has no reader in
// SSA form. An error discarded in so many words (`_ = f()`, `x, _ := f()`) is accepted only where failure is
// excluded by construction: all arguments are compile-time constants, or the (function, callee) pair is in the
// reasoned table below.

import (
	"go/constant"
	"fmt"
	"go/ast"
	"go/token"
	"sort"
	"strings"

	"golang.org/x/tools/go/ssa"
)

// explicit discards whose call cannot fail, with the reason (function -> callee)
var discardOK = map[string]string{
	"bscript.NewFromASM -> (*bscript.Script).AppendOpcodes":                      "the opcode comes from the name table, which holds no OP_PUSHDATA opcode names that AppendOpcodes refuses... it refuses only OP_DATA_1..OP_PUSHDATA4, which NewFromASM's callers spell as hex data",
	"(*bscript/interpreter.thread).Step -> (*bscript/interpreter.stack).DropN":   "DropN(Depth()) drops exactly what is there",
	"bscript/interpreter.setStack -> (*bscript/interpreter.stack).DropN":         "DropN(Depth()) drops exactly what is there",
	"bscript/interpreter.getStack -> (*bscript/interpreter.stack).PeekByteArray": "the index runs below Depth()",
}

func ruleEUse(c *Ctx, specs []entrySpec, min int) {
	pe := pEngine(c)
	fns := pe.reachable(resolveEntries(c, "E-use", specs))
	n := 0
	seenKey := map[string]int{}
	for _, fn := range fns {
		if !inScope(pkgPathOf(fn)) {
			continue
		}
		for _, b := range fn.Blocks {
			for _, ins := range b.Instrs {
				call, ok := ins.(*ssa.Call)
				if !ok {
					continue
				}
				res := call.Call.Signature().Results()
				errIdx := -1
				for i := 0; i < res.Len(); i++ {
					if isErrorType(res.At(i).Type()) {
						errIdx = i
					}
				}
				if errIdx < 0 || neverFails(call) {
					continue
				}
				n++
				read := false
				if res.Len() == 1 {
					read = hasReader(call)
				} else if call.Referrers() != nil {
					for _, r := range *call.Referrers() {
						switch x := r.(type) {
						case *ssa.Extract:
							if x.Index == errIdx && hasReader(x) {
								read = true
							}
						case *ssa.Return:
							read = true // return f(...)
						}
					}
				}
				key := fmt.Sprintf("%s -> %s", funcName(fn), calleeLabel(&call.Call))
				seenKey[key]++
				pair := key
				if seenKey[key] > 1 {
					key = fmt.Sprintf("%s #%d", key, seenKey[key])
				}
				if read {
					c.OK("E-use", key, call.Pos(), "the error is read")
					continue
				}
				if explicitDiscard(fn, call, errIdx) {
					if allConstArgs(call) {
						c.OK("E-use", key, call.Pos(), "discarded in so many words; all arguments are compile-time constants")
						continue
					}
					if why, ok := discardOK[pair]; ok {
						c.OK("E-use", key, call.Pos(), "discarded in so many words: "+why)
						continue
					}
					// the same call moved into a helper a later change extracted: reasoned for every function it
					// now runs on behalf of
					if inlineHelper != nil && inlineHelper(fn) {
						all, why := true, ""
						afs := attributedTo(c.P, fn)
						for _, af := range afs {
							w, ok := discardOK[fmt.Sprintf("%s -> %s", funcName(af), calleeLabel(&call.Call))]
							if !ok {
								all = false
							}
							why = w
						}
						if all && len(afs) > 0 {
							c.OK("E-use", key, call.Pos(), "discarded in so many words (in a helper of the function the reason was written for): "+why)
							continue
						}
					}
					c.Fail("E-use", key, call.Pos(), "the error returned by "+calleeLabel(&call.Call)+" is discarded with _ and the call is not one known to be unable to fail")
					continue
				}
				c.Fail("E-use", key, call.Pos(), "the error returned by "+calleeLabel(&call.Call)+" is never looked at (assigned and then overwritten or left unread): a failure goes on as if it had succeeded")
			}
		}
	}
	// the other way round: an error that was just found to be nil is handed back as "the error" (the test
	// was meant the other way: `if err == nil { return nil, err }` reports success with nothing, and goes on
	// with the failure)
	nRet := 0
	for _, fn := range fns {
		if !inScope(pkgPathOf(fn)) {
			continue
		}
		for _, b := range fn.Blocks {
			ret, ok := b.Instrs[len(b.Instrs)-1].(*ssa.Return)
			if !ok {
				continue
			}
			for _, r := range ret.Results {
				if !isErrorType(r.Type()) {
					continue
				}
				if _, isConst := r.(*ssa.Const); isConst {
					continue
				}
				nRet++
				for _, dc := range dominatingConds(b) {
					bo, ok := dc.cond.(*ssa.BinOp)
					if !ok || (bo.Op != token.EQL && bo.Op != token.NEQ) {
						continue
					}
					var other ssa.Value
					if bo.X == r {
						other = bo.Y
					} else if bo.Y == r {
						other = bo.X
					}
					if k, isK := other.(*ssa.Const); !isK || k.Value != nil {
						continue
					}
					if (bo.Op == token.EQL) == dc.truth { // r == nil holds here
						c.Fail("E-use", fmt.Sprintf("%s/returns-nil-error", funcName(fn)), ret.Pos(), "the error returned here was just tested and found nil: the function reports success (with whatever else it returns at this point) where the test was meant for the failure")
					}
				}
			}
		}
	}
	c.Covered["E-use:error-returns"] = nRet
	c.Covered["E-use:calls"] = n
	c.MinInstances("E-use", n, min)
}

func hasReader(v ssa.Value) bool {
	if v.Referrers() == nil {
		return false
	}
	for _, r := range *v.Referrers() {
		if _, dbg := r.(*ssa.DebugRef); dbg {
			continue
		}
		if r.Block() != nil && constantlyDead(r.Block()) {
			continue // a reader that a constant condition keeps from ever running reads nothing
		}
		return true
	}
	return false
}

// constantlyDead: the block is reached only through the side of a branch that its constant condition never takes.
func constantlyDead(b *ssa.BasicBlock) bool {
	for _, dc := range dominatingConds(b) {
		if k, ok := dc.cond.(*ssa.Const); ok && k.Value != nil && k.Value.Kind() == constant.Bool && constant.BoolVal(k.Value) != dc.truth {
			return true
		}
	}
	return false
}

func allConstArgs(call *ssa.Call) bool {
	args := call.Call.Args
	if call.Call.StaticCallee() != nil && call.Call.StaticCallee().Signature.Recv() != nil && len(args) > 0 {
		args = args[1:] // the receiver is the object being built
	}
	if len(args) == 0 {
		return false
	}
	for _, a := range args {
		switch x := a.(type) {
		case *ssa.Const:
		case *ssa.Slice:
			// a variadic list of constants
			if _, ok := literalBytes(x); !ok {
				return false
			}
		default:
			return false
		}
	}
	return true
}

// explicitDiscard: in the source the call's error is assigned to the blank identifier (or the call is the
// right-hand side of `_ = f()`).
func explicitDiscard(fn *ssa.Function, call *ssa.Call, errIdx int) bool {
	syn := fn.Syntax()
	if syn == nil {
		return false
	}
	found := false
	ast.Inspect(syn, func(n ast.Node) bool {
		as, ok := n.(*ast.AssignStmt)
		if !ok || len(as.Rhs) != 1 {
			return true
		}
		ce, ok := as.Rhs[0].(*ast.CallExpr)
		if !ok || ce.Lparen != call.Pos() {
			return true
		}
		idx := errIdx
		if len(as.Lhs) == 1 {
			idx = 0
		}
		if idx < len(as.Lhs) {
			if id, ok := as.Lhs[idx].(*ast.Ident); ok && id.Name == "_" {
				found = true
			}
		}
		return false
	})
	return found
}

var _ = sort.Strings
var _ = strings.Contains
var _ token.Pos

// entry points per property (what the property's text names as its operations)
var (
	sighashEntries = []entrySpec{{"", "*Tx", "CalcInputPreimage"}, {"", "*Tx", "CalcInputPreimageLegacy"}, {"", "*Tx", "CalcInputSignatureHash"}}
	signEntries    = []entrySpec{{"", "*Tx", "FillInput"}, {"", "*Tx", "FillAllInputs"}, {"unlocker", "*Simple", "UnlockingScript"}}
	execEntries    = []entrySpec{{"bscript/interpreter", "*engine", "Execute"}}
	changeEntries  = []entrySpec{{"", "*Tx", "Change"}, {"", "*Tx", "ChangeToAddress"}, {"", "*Tx", "ChangeToExistingOutput"}}
	feeEntries     = []entrySpec{{"", "*Tx", "Size"}, {"", "*Tx", "SizeWithTypes"}, {"", "*Tx", "EstimateSize"}, {"", "*Tx", "EstimateSizeWithTypes"}, {"", "*Tx", "IsFeePaidEnough"}, {"", "*Tx", "EstimateIsFeePaidEnough"}, {"", "*Tx", "EstimateFeesPaid"}}
	fundEntries    = []entrySpec{{"", "*Tx", "Fund"}, {"", "*Tx", "From"}, {"", "*Tx", "FromUTXOs"}}
	addrEntries    = []entrySpec{{"bscript", "", "NewAddressFromString"}, {"bscript", "", "NewAddressFromPublicKeyString"}, {"bscript", "", "ValidateAddress"}, {"bscript", "", "NewP2PKHFromAddress"}, {"", "*Tx", "PayToAddress"}, {"", "*Tx", "AddP2PKHOutputFromAddress"}}
	bip276Entries  = []entrySpec{{"bscript", "", "EncodeBIP276"}, {"bscript", "", "DecodeBIP276"}, {"bscript", "", "ValidateAddress"}}
	ordEntries     = []entrySpec{{"ord", "", "ListOrdinalForSale"}, {"ord", "", "AcceptOrdinalSaleListing"}, {"ord", "", "AcceptOrdinalSaleListing2Dummies"}, {"ord", "", "MakeBidToBuy1SatOrdinal"}, {"ord", "", "MakeBidToBuy1SatOrdinal2Dummies"}, {"ord", "", "AcceptBidToBuy1SatOrdinal"}, {"ord", "", "AcceptBidToBuy1SatOrdinal2Dummies"}, {"", "*Tx", "Inscribe"}, {"", "*Tx", "InscribeSpecificOrdinal"}, {"bscript", "*Script", "ParseInscription"}}
)

// neverFails: writers documented to always return a nil error (the list errcheck ships with, as far as the
// module uses it): strings.Builder, bytes.Buffer, hash.Hash.
func neverFails(call *ssa.Call) bool {
	if sc := call.Call.StaticCallee(); sc != nil {
		n := sc.String()
		return strings.HasPrefix(n, "(*strings.Builder).Write") || strings.HasPrefix(n, "(*bytes.Buffer).Write")
	}
	if call.Call.IsInvoke() && call.Call.Method.Name() == "Write" {
		t := call.Call.Value.Type().String()
		return t == "hash.Hash" || strings.HasSuffix(t, "/hash.Hash")
	}
	return false
}
