package main

// Constant lookup tables: a package-level map or array built by one composite literal with
// constant keys and constant integer/boolean values, never written afterwards (checked over every
// instruction of the module). A lookup with a key the analysis knows is the value written in the
// literal (the element type's zero value for a key that is not listed); a lookup with an unknown key
// lies between the smallest and the largest value. A switch rewritten as such a table therefore
// decides the same way as the switch.

import (
	"go/ast"
	"go/constant"
	"go/token"
	"go/types"
	"math/big"

	"golang.org/x/tools/go/ssa"
)

type constTable struct {
	isMap bool
	vals  map[string]*big.Int // key (decimal) -> value
	n     int64               // array length (arrays)
	lo    *big.Int
	hi    *big.Int
}

var constTableCache = map[*ssa.Global]*constTable{}

func constTableOf(p *Prog, g *ssa.Global) *constTable {
	if t, ok := constTableCache[g]; ok {
		return t
	}
	constTableCache[g] = nil
	if p == nil || g.Pkg == nil {
		return nil
	}
	pk := p.Pkgs[g.Pkg.Pkg.Path()]
	if pk == nil {
		return nil
	}
	cl, _ := findVarLit(pk, g.Name())
	if cl == nil {
		return nil
	}
	t := &constTable{vals: map[string]*big.Int{}, lo: big.NewInt(0), hi: big.NewInt(0)}
	switch u := g.Type().Underlying().(*types.Pointer).Elem().Underlying().(type) {
	case *types.Map:
		t.isMap = true
	case *types.Array:
		t.n = u.Len()
	default:
		return nil
	}
	val := func(e ast.Expr) (*big.Int, bool) {
		cv, ok := constOf(pk, e)
		if !ok {
			return nil, false
		}
		switch cv.Kind() {
		case constant.Bool:
			if constant.BoolVal(cv) {
				return big.NewInt(1), true
			}
			return big.NewInt(0), true
		case constant.Int:
			return constValInt(cv)
		}
		return nil, false
	}
	next := big.NewInt(0)
	for _, e := range cl.Elts {
		var k *big.Int
		var ve ast.Expr
		if kv, ok := e.(*ast.KeyValueExpr); ok {
			kc, ok := constOf(pk, kv.Key)
			if !ok {
				return nil
			}
			kk, ok := constValInt(kc)
			if !ok {
				return nil
			}
			k, ve = kk, kv.Value
		} else {
			if t.isMap {
				return nil
			}
			k, ve = new(big.Int).Set(next), e
		}
		next = new(big.Int).Add(k, big.NewInt(1))
		v, ok := val(ve)
		if !ok {
			return nil
		}
		t.vals[k.String()] = v
		if v.Cmp(t.lo) < 0 {
			t.lo = v
		}
		if v.Cmp(t.hi) > 0 {
			t.hi = v
		}
	}
	if !globalNeverWritten(p, g) {
		return nil
	}
	constTableCache[g] = t
	return t
}

func (t *constTable) at(k *big.Int) *big.Int {
	if v, ok := t.vals[k.String()]; ok {
		return v
	}
	return big.NewInt(0)
}

func (t *constTable) has(k *big.Int) bool {
	_, ok := t.vals[k.String()]
	return ok
}

func (t *constTable) keys() []*big.Int {
	var out []*big.Int
	for k := range t.vals {
		v, _ := new(big.Int).SetString(k, 10)
		out = append(out, v)
	}
	return out
}

// globalNeverWritten: the global is only loaded from (lookups, indexing, len, range): no store to it
// or through its address, no map update or delete, and its value is not handed to any call.
func globalNeverWritten(p *Prog, g *ssa.Global) bool {
	okUse := func(v ssa.Value) bool {
		if v.Referrers() == nil {
			return true
		}
		for _, r := range *v.Referrers() {
			switch x := r.(type) {
			case *ssa.Lookup, *ssa.Index, *ssa.Range, *ssa.DebugRef:
			case *ssa.Call:
				b, ok := x.Call.Value.(*ssa.Builtin)
				if !ok || b.Name() != "len" {
					return false
				}
			default:
				return false
			}
		}
		return true
	}
	for _, pk := range p.ScopePkgs() {
		for _, fn := range pkgFunctions(p, pk.PkgPath) {
			for _, b := range fn.Blocks {
				for _, ins := range b.Instrs {
					for _, op := range ins.Operands(nil) {
						if *op != ssa.Value(g) {
							continue
						}
						switch x := ins.(type) {
						case *ssa.UnOp:
							if x.Op != token.MUL || !okUse(x) {
								return false
							}
						case *ssa.IndexAddr:
							// &g[i]: only loaded
							if x.Referrers() != nil {
								for _, r := range *x.Referrers() {
									if st, isSt := r.(*ssa.Store); isSt && st.Addr == ssa.Value(x) && fn.Name() == "init" {
										continue // the package initialiser writes the literal's elements
									}
									if fa, isFa := r.(*ssa.FieldAddr); isFa {
										// &g[i].f: stored by the initialiser, loaded elsewhere
										if fa.Referrers() != nil {
											for _, r2 := range *fa.Referrers() {
												if st, isSt := r2.(*ssa.Store); isSt && st.Addr == ssa.Value(fa) && fn.Name() == "init" {
													continue
												}
												if ld, ok := r2.(*ssa.UnOp); ok && ld.Op == token.MUL {
													continue
												}
												if _, dbg := r2.(*ssa.DebugRef); dbg {
													continue
												}
												return false
											}
										}
										continue
									}
									if ld, ok := r.(*ssa.UnOp); !ok || ld.Op != token.MUL {
										if _, dbg := r.(*ssa.DebugRef); !dbg {
											return false
										}
									}
								}
							}
						case *ssa.Store:
							// the package initialiser stores the literal once
							if fn.Name() != "init" || x.Addr != ssa.Value(g) {
								return false
							}
						case *ssa.DebugRef:
						default:
							return false
						}
					}
				}
			}
		}
	}
	return true
}

// tableOfTerm: the constant table a term (the map/array operand of a lookup) denotes.
func tableOfTerm(t *T) *constTable {
	for t != nil && (t.K == "load" || t.K == "conv") && len(t.Args) == 1 {
		t = t.Args[0]
	}
	if t == nil || t.K != "global" {
		return nil
	}
	g, ok := t.V.(*ssa.Global)
	if !ok {
		return nil
	}
	return constTableOf(theProg, g)
}

// structTableOf: a package-level array (or slice literal) of structs whose fields are all constants,
// never written: one map field -> value per row.
func structTableOf(p *Prog, g *ssa.Global) []map[string]*big.Int {
	if p == nil || g.Pkg == nil {
		return nil
	}
	pk := p.Pkgs[g.Pkg.Pkg.Path()]
	if pk == nil {
		return nil
	}
	cl, _ := findVarLit(pk, g.Name())
	if cl == nil {
		return nil
	}
	var st *types.Struct
	switch u := g.Type().Underlying().(*types.Pointer).Elem().Underlying().(type) {
	case *types.Array:
		st, _ = u.Elem().Underlying().(*types.Struct)
	case *types.Slice:
		st, _ = u.Elem().Underlying().(*types.Struct)
	}
	if st == nil {
		return nil
	}
	var rows []map[string]*big.Int
	for _, e := range cl.Elts {
		if kv, ok := e.(*ast.KeyValueExpr); ok {
			e = kv.Value
		}
		el, ok := e.(*ast.CompositeLit)
		if !ok {
			return nil
		}
		row := map[string]*big.Int{}
		for i, fe := range el.Elts {
			name := ""
			ve := fe
			if kv, ok := fe.(*ast.KeyValueExpr); ok {
				id, ok := kv.Key.(*ast.Ident)
				if !ok {
					return nil
				}
				name, ve = id.Name, kv.Value
			} else if i < st.NumFields() {
				name = st.Field(i).Name()
			}
			cv, ok := constOf(pk, ve)
			if !ok {
				return nil
			}
			v, ok := constValInt(cv)
			if !ok {
				return nil
			}
			row[name] = v
		}
		rows = append(rows, row)
	}
	if !globalNeverWritten(p, g) {
		return nil
	}
	return rows
}

// rowFieldOfTable: v is a field of the element a range loop over a constant struct table is at
// (t := table[i]; t.field): the table and the field name.
func rowFieldOfTable(p *Prog, v ssa.Value) ([]map[string]*big.Int, string) {
	ld, ok := v.(*ssa.UnOp)
	if !ok || ld.Op != token.MUL {
		return nil, ""
	}
	fa, ok := ld.X.(*ssa.FieldAddr)
	if !ok {
		return nil, ""
	}
	field := fieldName(fa.X.Type(), fa.Field)
	// the struct: a local that receives table[i], or the element address itself
	var elem ssa.Value
	switch x := fa.X.(type) {
	case *ssa.Alloc:
		if x.Referrers() == nil {
			return nil, ""
		}
		n := 0
		for _, r := range *x.Referrers() {
			if st, ok := r.(*ssa.Store); ok && st.Addr == ssa.Value(x) {
				n++
				elem = st.Val
			}
		}
		if n != 1 {
			return nil, ""
		}
	case *ssa.IndexAddr:
		elem = x
	default:
		return nil, ""
	}
	var tab ssa.Value
	switch e := elem.(type) {
	case *ssa.Index:
		tab = e.X
	case *ssa.IndexAddr:
		tab = e.X
	case *ssa.UnOp:
		if ia, ok := e.X.(*ssa.IndexAddr); ok && e.Op == token.MUL {
			tab = ia.X
		}
	}
	if tab == nil {
		return nil, ""
	}
	if l2, ok := tab.(*ssa.UnOp); ok && l2.Op == token.MUL {
		tab = l2.X
	}
	g, ok := tab.(*ssa.Global)
	if !ok {
		return nil, ""
	}
	// globalNeverWritten accepts the array copy "*g" only through okUse; a whole-array load is a read
	rows := structTableOf(p, g)
	return rows, field
}
