package main

// T-tmpl: script template predicates as complete decision tables over the byte
// positions and the length they compare. S-chk / T-ver: address decoding.

import (
	"fmt"
	"go/constant"
	"go/token"
	"go/types"
	"math/big"
	"regexp"
	"sort"
	"strings"

	"golang.org/x/tools/go/ssa"
)

var idxRe = regexp.MustCompile(`\[(\d+)\]$`)

// boolTable evaluates a boolean function's extracted decision structure on the product of
// representatives of its base terms and compares with spec. Terms are named "len" and "b<k>".
func boolTable(c *Ctx, rule, key string, fn *ssa.Function, spec func(m map[string]int64) bool) {
	paths, err := enumPaths(fn.Blocks[0], nil, nil, 4096)
	if err != nil {
		c.Undecided(rule, key, fn.Pos(), "cannot enumerate paths: "+err.Error())
		return
	}
	namer := func(k string) string {
		if strings.HasPrefix(k, "len(") {
			return "len"
		} else if m := idxRe.FindStringSubmatch(k); m != nil {
			return "b" + m[1]
		}
		return ""
	}
	// only consistent cells: a byte position k exists only if len > k; cells that read a
	// position beyond the length are skipped (the code must not read them: engine P)
	consistent := func(short map[string]int64) bool {
		if l, ok := short["len"]; ok {
			for n := range short {
				if n != "len" {
					var k int64
					fmt.Sscanf(n, "b%d", &k)
					if k >= l && short[n] != 0 {
						return false
					}
				}
			}
		}
		return true
	}
	boolTableOn(c, rule, key, fn, paths, namer, consistent, spec)
}

// boolTableOn: the table over the given paths; namer gives each base term a short name ("" = not a
// term of the template; names starting with "len" are lengths), consistent filters impossible cells.
func boolTableOn(c *Ctx, rule, key string, fn *ssa.Function, paths []*DPath, namer func(string) string, consistent func(map[string]int64) bool, spec func(m map[string]int64) bool, specConsts ...map[string][]int64) {
	// bytes.HasPrefix / bytes.Equal against a literal are comparisons of the length and of
	// constant byte positions
	for _, p := range paths {
		for i := range p.Conds {
			p.Conds[i].Cond = expandBytesPreds(p.Conds[i].Cond)
		}
		if p.Ret != nil && len(p.Ret.Results) > 0 {
			p.Env.memo[p.Ret.Results[0]] = expandBytesPreds(p.Env.Term(p.Ret.Results[0]))
		}
	}
	bases := condBaseTerms(paths)
	retConsts := map[string]map[string]*big.Int{}
	for _, p := range paths {
		if p.Ret != nil && len(p.Ret.Results) > 0 {
			rt := p.Env.Term(p.Ret.Results[0])
			bt := map[string]*T{}
			baseTerms(rt, bt)
			cs := map[string]*big.Int{}
			collectConsts(rt, cs)
			for k, t := range bt {
				bases[k] = t
				if retConsts[k] == nil {
					retConsts[k] = map[string]*big.Int{}
				}
				for ck, cv := range cs {
					retConsts[k][ck] = cv
				}
			}
		}
	}
	names := map[string]string{} // term string -> short name
	consts := map[string]map[string]*big.Int{}
	for k := range bases {
		short := namer(k)
		if short == "" {
			c.Undecided(rule, key, fn.Pos(), "predicate depends on a term that is neither a length nor a constant byte position: "+k)
			return
		}
		names[k] = short
		consts[k] = map[string]*big.Int{}
		for ck, cv := range retConsts[k] {
			consts[k][ck] = cv
		}
	}
	for _, p := range paths {
		for _, cd := range p.Conds {
			bt := map[string]*T{}
			baseTerms(cd.Cond, bt)
			cs := map[string]*big.Int{}
			collectConsts(cd.Cond, cs)
			for k := range bt {
				for ck, cv := range cs {
					consts[k][ck] = cv
				}
			}
		}
	}
	// the template's own constants are representatives too: a value the code forgets is still a cell
	for _, sc := range specConsts {
		for k := range bases {
			for _, v := range sc[names[k]] {
				consts[k][fmt.Sprint(v)] = big.NewInt(v)
			}
		}
	}
	var order []string
	for k := range bases {
		order = append(order, k)
	}
	sort.Strings(order)
	reps := make([][]*big.Int, len(order))
	total := 1
	for i, k := range order {
		var typ types.Type = types.Typ[types.Uint8]
		if strings.HasPrefix(names[k], "len") {
			typ = types.Typ[types.Int]
		}
		reps[i] = representatives(typ, consts[k])
		if strings.HasPrefix(names[k], "len") {
			var rr []*big.Int
			for _, r := range reps[i] {
				if r.Sign() >= 0 && r.Cmp(big.NewInt(1<<40)) < 0 {
					rr = append(rr, r)
				}
			}
			reps[i] = rr
		}
		if strings.HasPrefix(names[k], "lenK") {
			// (IsMultiSigOut) a term the table keeps at zero: one representative
			reps[i] = []*big.Int{big.NewInt(0)}
		}
		total *= len(reps[i])
	}
	if total > 400000 {
		c.Undecided(rule, key, fn.Pos(), fmt.Sprintf("decision table too large (%d cells)", total))
		return
	}
	idx := make([]int, len(order))
	cells, mismatches := 0, 0
	firstMismatch := ""
	for {
		asg := map[string]*big.Int{}
		short := map[string]int64{}
		for i, k := range order {
			asg[k] = reps[i][idx[i]]
			short[names[k]] = reps[i][idx[i]].Int64()
		}
		if consistent(short) {
			cells++
			got, err := evalBoolPaths(paths, asg)
			if err != nil {
				c.Undecided(rule, key, fn.Pos(), err.Error())
				return
			}
			if got != spec(short) {
				mismatches++
				if firstMismatch == "" {
					firstMismatch = fmt.Sprintf("%v: code %v, template %v", short, got, spec(short))
				}
			}
		}
		// next
		i := 0
		for ; i < len(idx); i++ {
			idx[i]++
			if idx[i] < len(reps[i]) {
				break
			}
			idx[i] = 0
		}
		if i == len(idx) {
			break
		}
	}
	c.Covered[rule+":cells:"+key] = cells
	if mismatches == 0 {
		c.OK(rule, key, fn.Pos(), fmt.Sprintf("decision table equals the template on all %d cells over %d terms", cells, len(order)))
	} else {
		c.Fail(rule, key, fn.Pos(), fmt.Sprintf("predicate differs from the standard template on %d of %d cells, e.g. %s", mismatches, cells, firstMismatch))
	}
}

func evalBoolPaths(paths []*DPath, asg map[string]*big.Int) (bool, error) {
	res, n := false, 0
	for _, p := range paths {
		ok, err := pathHolds(p, asg)
		if err != nil {
			return false, err
		}
		if !ok || p.Ret == nil {
			continue
		}
		rt := p.Env.Term(p.Ret.Results[0])
		var v bool
		if rt.K == "const" && rt.C != nil && rt.C.Kind() == constant.Bool {
			v = constant.BoolVal(rt.C)
		} else {
			x, ok := evalTerm(rt, asg)
			if !ok {
				return false, fmt.Errorf("result %s is not foldable", rt)
			}
			v = x.Sign() != 0
		}
		if n > 0 && v != res {
			return false, fmt.Errorf("ambiguous paths")
		}
		res = v
		n++
	}
	if n == 0 {
		return false, fmt.Errorf("no path")
	}
	return res, nil
}

func ruleTTmplScripts(c *Ctx) { ruleTTmplOnly(c, nil) }

// ruleTTmplOnly restricts the template rules to the predicates a property depends on (nil = all), so
// that a change to one predicate is reported by the properties it affects and by no other.
func ruleTTmplOnly(c *Ctx, only map[string]bool) {
	type tm struct {
		name string
		spec func(m map[string]int64) bool
	}
	for _, t := range []tm{
		{"IsP2PKH", func(m map[string]int64) bool {
			return m["len"] == 25 && m["b0"] == 0x76 && m["b1"] == 0xa9 && m["b2"] == 0x14 && m["b23"] == 0x88 && m["b24"] == 0xac
		}},
		{"IsP2SH", func(m map[string]int64) bool {
			return m["len"] == 23 && m["b0"] == 0xa9 && m["b1"] == 0x14 && m["b22"] == 0x87
		}},
		{"IsData", func(m map[string]int64) bool {
			return (m["len"] > 0 && m["b0"] == 0x6a) || (m["len"] > 1 && m["b0"] == 0 && m["b1"] == 0x6a)
		}},
	} {
		if only != nil && !only[t.name] {
			continue
		}
		fn := c.P.Func("bscript", "*Script", t.name)
		if fn == nil {
			c.Undecided("T-tmpl", t.name, token.NoPos, "not found")
			continue
		}
		boolTable(c, "T-tmpl", t.name, fn, t.spec)
	}
	if only == nil || only["IsP2PK"] {
		ruleTTmplP2PK(c)
	}
	if only == nil || only["IsMultiSigOut"] {
		ruleTTmplMultisig(c)
	}
	if only == nil || only["IsP2PKHInscription"] {
		ruleTInsc(c)
	}
	// undecodable scripts are never key-bearing: IsP2PK / IsMultiSigOut / IsP2PKHInscription
	// return false on the err != nil branch of DecodeParts
	pe := pEngine(c)
	for _, name := range []string{"IsP2PK", "IsMultiSigOut", "IsP2PKHInscription"} {
		if only != nil && !only[name] {
			continue
		}
		fn := c.P.Func("bscript", "*Script", name)
		if fn == nil {
			c.Undecided("T-tmpl", name+"/undecodable", token.NoPos, "not found")
			continue
		}
		pf := pe.pf(fn)
		ok := false
		bad := false
		for _, b := range fn.Blocks {
			ret, isRet := b.Instrs[len(b.Instrs)-1].(*ssa.Return)
			if !isRet {
				continue
			}
			errNonNil := false
			for _, f := range pf.factsAt(b).facts {
				if strings.HasPrefix(f.nonil, "extract:1(") && strings.Contains(f.nonil, "DecodeParts") {
					errNonNil = true
				}
			}
			if !errNonNil {
				continue
			}
			if k, isC := ret.Results[0].(*ssa.Const); isC && k.Value != nil && !constant.BoolVal(k.Value) {
				ok = true
			} else {
				bad = true
			}
		}
		// every return must be preceded by the error test: the block that tests err dominates all returns
		c.Check(ok && !bad, "T-tmpl", name+"/undecodable", fn.Pos(), "returns false when DecodeParts reports an error",
			name+" does not return false on the DecodeParts error branch (an undecodable script could be classified as key-bearing)")
		errTestDominates(c, pf, fn, name)
	}
}

// errTestDominates: every return that can yield true is dominated by err == nil of DecodeParts.
func errTestDominates(c *Ctx, pf *pfunc, fn *ssa.Function, name string) {
	for _, b := range fn.Blocks {
		ret, isRet := b.Instrs[len(b.Instrs)-1].(*ssa.Return)
		if !isRet {
			continue
		}
		if k, isC := ret.Results[0].(*ssa.Const); isC && k.Value != nil && !constant.BoolVal(k.Value) {
			continue
		}
		errNil := false
		for _, f := range pf.factsAt(b).facts {
			if strings.HasPrefix(f.isnil, "extract:1(") && strings.Contains(f.isnil, "DecodeParts") {
				errNil = true
			}
		}
		c.Check(errNil, "T-tmpl", name+"/true-needs-decoded", ret.Pos(), "a possibly-true result is reached only after DecodeParts succeeded",
			name+" can report true without DecodeParts having succeeded")
	}
}

// ---------------------------------------------------------------------
// C15

// derivesFromChecksum: does the value depend (through calls, loads of locals, conversions) on crypto.Sha256d?
func derivesFromChecksum(c *Ctx, v ssa.Value, depth int, seen map[ssa.Value]bool) bool {
	if depth > 8 || seen[v] {
		return false
	}
	seen[v] = true
	switch x := v.(type) {
	case *ssa.Call:
		if sc := x.Call.StaticCallee(); sc != nil {
			if funcCallsSha(c, sc, map[*ssa.Function]bool{}) {
				return true
			}
		}
		for _, a := range x.Call.Args {
			if derivesFromChecksum(c, a, depth+1, seen) {
				return true
			}
		}
	case *ssa.Extract:
		return derivesFromChecksum(c, x.Tuple, depth+1, seen)
	case *ssa.UnOp:
		if al, ok := x.X.(*ssa.Alloc); ok && al.Referrers() != nil {
			for _, r := range *al.Referrers() {
				if st, ok := r.(*ssa.Store); ok && derivesFromChecksum(c, st.Val, depth+1, seen) {
					return true
				}
				// a local array filled by copy(arr[:], <checksum bytes>)
				if sl, ok := r.(*ssa.Slice); ok && sl.Referrers() != nil {
					for _, rr := range *sl.Referrers() {
						if cp, ok := rr.(*ssa.Call); ok {
							if b, isB := cp.Call.Value.(*ssa.Builtin); isB && b.Name() == "copy" && cp.Call.Args[0] == ssa.Value(sl) && derivesFromChecksum(c, cp.Call.Args[1], depth+1, seen) {
								return true
							}
						}
					}
				}
			}
		}
		return derivesFromChecksum(c, x.X, depth+1, seen)
	case *ssa.Slice:
		return derivesFromChecksum(c, x.X, depth+1, seen)
	case *ssa.Convert:
		return derivesFromChecksum(c, x.X, depth+1, seen)
	case *ssa.ChangeType:
		return derivesFromChecksum(c, x.X, depth+1, seen)
	case *ssa.Phi:
		for _, e := range x.Edges {
			if derivesFromChecksum(c, e, depth+1, seen) {
				return true
			}
		}
	case *ssa.BinOp:
		return derivesFromChecksum(c, x.X, depth+1, seen) || derivesFromChecksum(c, x.Y, depth+1, seen)
	}
	return false
}

func funcCallsSha(c *Ctx, fn *ssa.Function, seen map[*ssa.Function]bool) bool {
	if seen[fn] {
		return false
	}
	seen[fn] = true
	if fn.String() == "github.com/libsv/go-bk/crypto.Sha256d" {
		return true
	}
	if !inScope(pkgPathOf(fn)) {
		return false
	}
	for _, b := range fn.Blocks {
		for _, ins := range b.Instrs {
			if call, ok := ins.(*ssa.Call); ok {
				if sc := call.Call.StaticCallee(); sc != nil && funcCallsSha(c, sc, seen) {
					return true
				}
			}
		}
	}
	return false
}

// S-chk: every function that decodes a Base58 address reaches success only through a checksum comparison.
func ruleSChk(c *Ctx) {
	pe := pEngine(c)
	n := 0
	for _, pk := range c.P.ScopePkgs() {
		for _, fn := range pkgFunctions(c.P, pk.PkgPath) {
			decodes := false
			var site token.Pos
			for _, b := range fn.Blocks {
				for _, ins := range b.Instrs {
					if call, ok := ins.(*ssa.Call); ok {
						if sc := call.Call.StaticCallee(); sc != nil {
							s := sc.String()
							if s == "github.com/libsv/go-bk/base58.Decode" || strings.HasSuffix(funcName(sc), "a25).set58") {
								decodes = true
								site = call.Pos()
							}
						}
					}
				}
			}
			if !decodes {
				continue
			}
			n++
			key := "decoder/" + funcName(fn)
			// success returns: last result nil error or first result true
			okAll, any := true, false
			for _, b := range fn.Blocks {
				ret, isRet := b.Instrs[len(b.Instrs)-1].(*ssa.Return)
				if !isRet {
					continue
				}
				last := ret.Results[len(ret.Results)-1]
				if isErrorType(last.Type()) {
					k := returnKinds(last)
					if k == 3 {
						cpf := pe.pf(fn)
						if cpf.knownNonNil(last, cpf.factsAt(b)) {
							k = 2
						}
					}
					if k == 2 {
						continue // error return
					}
				}
				any = true
				guarded := false
				for x := b; x != nil; x = x.Idom() {
					if len(x.Preds) != 1 {
						continue
					}
					pr := x.Preds[0]
					if iff, ok := pr.Instrs[len(pr.Instrs)-1].(*ssa.If); ok {
						if derivesFromChecksum(c, iff.Cond, 0, map[ssa.Value]bool{}) {
							guarded = true
						}
					}
				}
				if !guarded {
					okAll = false
				}
			}
			if any && okAll {
				c.OK("S-chk", key, site, "every success return is dominated by a comparison with a SHA256d-derived checksum")
			} else {
				c.Fail("S-chk", key, site, funcName(fn)+" decodes a Base58 string and can succeed without comparing the embedded 4 bytes with a SHA256d checksum: a mistyped address is accepted")
			}
		}
	}
	c.MinInstances("S-chk", n, 2)
}

// T-ver: version bytes written by the encoders, accepted by the decoder switch and by the validator agree.
func ruleTVer(c *Ctx) {
	want := "{0x00,0x6f}"
	// decoder: switch decoded[0] cases that return a nil error
	if fn := c.P.Func("bscript", "", "addressToPubKeyHashStr"); fn != nil {
		paths, err := enumPaths(fn.Blocks[0], nil, nil, 256)
		if err != nil {
			c.Undecided("T-ver", "decoder", fn.Pos(), err.Error())
		} else {
			base, bt := pickBase(condBaseTerms(paths), "[0]")
			acc := map[int64]bool{}
			if bt == nil {
				c.Undecided("T-ver", "decoder", fn.Pos(), "no decision on the version byte")
			} else {
				for v := int64(0); v < 256; v++ {
					asg := map[string]*big.Int{base: big.NewInt(v)}
					for _, p := range paths {
						ok, _ := pathHolds(p, asg)
						if !ok || p.Ret == nil {
							continue
						}
						et := p.Env.Term(p.Ret.Results[1])
						if et.K == "const" && et.C == nil {
							// only paths past the length check count: they contain a len == 25 style condition taken
							acc[v] = true
						}
					}
				}
				c.Check(setStr(acc) == want, "T-ver", "decoder", fn.Pos(), "decoder accepts version bytes "+setStr(acc), "decoder accepts version bytes "+setStr(acc)+", encoders write "+want)
			}
		}
	} else {
		c.Undecided("T-ver", "decoder", token.NoPos, "addressToPubKeyHashStr not found")
	}
	// validator
	if fn := c.P.Func("bscript", "", "validA58"); fn != nil {
		// the version bytes for which a "valid" verdict is reachable: every success path's tests of the version
		// byte folded on all 256 values (its other tests - the checksum - are left open)
		at := map[int64]bool{}
		decided := false
		if paths, err := feasiblePaths(fn, 4096); err == nil {
			base, bt := pickBase(condBaseTerms(paths), "[0]")
			if bt != nil {
				decided = true
				for v := int64(0); v < 256; v++ {
					asg := map[string]*big.Int{base: big.NewInt(v)}
					for _, p := range paths {
						if p.EndKind != "return" || p.Ret == nil || len(p.Ret.Results) != 2 {
							continue
						}
						rt := p.Env.Term(p.Ret.Results[0])
						if !(rt.K == "const" && rt.C != nil && rt.C.Kind() == constant.Bool && constant.BoolVal(rt.C)) {
							continue
						}
						if ok, _ := pathHolds(p, asg); ok {
							at[v] = true
						}
					}
				}
			}
		}
		if !decided {
			c.Undecided("T-ver", "validator", fn.Pos(), "no decision on the version byte found on validA58's paths")
		} else {
			c.Check(setStr(at) == want, "T-ver", "validator", fn.Pos(), "validator accepts version bytes "+setStr(at), "validator accepts the version bytes "+setStr(at)+", expected "+want)
		}
	} else {
		c.Undecided("T-ver", "validator", token.NoPos, "validA58 not found")
	}
	// encoders: the first payload byte under mainnet = true / false
	for _, name := range []string{"NewAddressFromPublicKeyHash", "NewAddressFromPublicKey"} {
		fn := c.P.Func("bscript", "", name)
		if fn == nil {
			c.Undecided("T-ver", "encoder/"+name, token.NoPos, "not found")
			continue
		}
		vals := map[int64]bool{}
		for _, mainnet := range []bool{true, false} {
			l, _ := addressPayload(c, fn, mainnet, 0)
			v := int64(-1)
			if len(l.Items) > 0 && l.Items[0].K == "const" && len(l.Items[0].S) == 2 {
				fmt.Sscanf(l.Items[0].S, "%x", &v)
			}
			vals[v] = true
		}
		c.Check(setStr(vals) == want, "T-ver", "encoder/"+name, fn.Pos(), "encoder writes version bytes "+setStr(vals), "encoder writes version bytes "+setStr(vals)+", expected "+want)
	}
}

// literalBytes: the constant contents of a []byte{...} literal value.
func literalBytes(v ssa.Value) ([]int64, bool) {
	sl, ok := v.(*ssa.Slice)
	if !ok || sl.Low != nil || sl.High != nil {
		return nil, false
	}
	al, ok := sl.X.(*ssa.Alloc)
	if !ok || al.Referrers() == nil {
		return nil, false
	}
	at, ok := al.Type().Underlying().(*types.Pointer).Elem().Underlying().(*types.Array)
	if !ok {
		return nil, false
	}
	out := make([]int64, at.Len())
	for _, r := range *al.Referrers() {
		switch x := r.(type) {
		case *ssa.Slice, *ssa.DebugRef:
		case *ssa.IndexAddr:
			idx, ok := constInt(x.Index)
			if !ok || x.Referrers() == nil {
				return nil, false
			}
			for _, rr := range *x.Referrers() {
				st, ok := rr.(*ssa.Store)
				if !ok {
					return nil, false
				}
				k, ok := constInt(st.Val)
				if !ok {
					return nil, false
				}
				out[idx.Int64()] = k.Int64() & 0xff
			}
		default:
			return nil, false
		}
	}
	return out, true
}

// expandBytesPreds rewrites bytes.HasPrefix(x, lit) as len(x) >= k && x[0] == c0 && ..., and
// bytes.Equal(x, lit) with len(x) == k.
func expandBytesPreds(t *T) *T {
	if t == nil {
		return t
	}
	if t.K == "call" {
		if call, ok := t.V.(*ssa.Call); ok {
			if sc := call.Call.StaticCallee(); sc != nil && (sc.String() == "bytes.HasPrefix" || sc.String() == "bytes.Equal") && len(t.Args) == 2 {
				if lit, ok := literalBytes(call.Call.Args[1]); ok {
					x := t.Args[0]
					op := token.GEQ
					if sc.String() == "bytes.Equal" {
						op = token.EQL
					}
					boolT := types.Typ[types.Bool]
					res := &T{K: "bin", Op: op, Typ: boolT, Args: []*T{{K: "len", Args: []*T{x}, Typ: types.Typ[types.Int]}, {K: "const", C: constant.MakeInt64(int64(len(lit))), Typ: types.Typ[types.Int]}}}
					for i, b := range lit {
						eq := &T{K: "bin", Op: token.EQL, Typ: boolT, Args: []*T{
							{K: "index", Args: []*T{x, {K: "const", C: constant.MakeInt64(int64(i)), Typ: types.Typ[types.Int]}}, Typ: types.Typ[types.Uint8]},
							{K: "const", C: constant.MakeInt64(b), Typ: types.Typ[types.Uint8]}}}
						res = &T{K: "bin", Op: token.LAND, Typ: boolT, Args: []*T{res, eq}}
					}
					return res
				}
			}
		}
	}
	if len(t.Args) == 0 {
		return t
	}
	changed := false
	args := make([]*T, len(t.Args))
	for i, a := range t.Args {
		args[i] = expandBytesPreds(a)
		if args[i] != a {
			changed = true
		}
	}
	if !changed {
		return t
	}
	n := *t
	n.Args = args
	n.s = ""
	return &n
}

// ruleTTmplP2PK: IsP2PK as a decision table over the decoded parts: exactly two parts, the second the
// one-byte OP_CHECKSIG, the first a key in one of the SEC encodings (02/03 + 32 bytes, 04/06/07 + 64 bytes).
func ruleTTmplP2PK(c *Ctx) {
	fn := c.P.Func("bscript", "*Script", "IsP2PK")
	if fn == nil {
		c.Undecided("T-tmpl", "IsP2PK", token.NoPos, "not found")
		return
	}
	all, err := feasiblePaths(fn, 8192)
	if err != nil {
		c.Undecided("T-tmpl", "IsP2PK", fn.Pos(), "cannot enumerate paths: "+err.Error())
		return
	}
	// the table is over decoded scripts: paths on which DecodeParts reported an error are the
	// subject of IsP2PK/undecodable
	var paths []*DPath
	parts := ""
	for _, p := range all {
		errPath := false
		var keep []PathCond
		for _, cd := range p.Conds {
			s := cd.Cond.String()
			if m := decodeErrRe.FindStringSubmatch(s); m != nil {
				parts = m[1] + "#0"
				if (strings.Contains(s, "!= nil")) == cd.Truth {
					errPath = true
				}
				continue
			}
			keep = append(keep, cd)
		}
		if errPath {
			continue
		}
		q := *p
		q.Conds = keep
		paths = append(paths, &q)
	}
	if parts == "" || len(paths) == 0 {
		c.Undecided("T-tmpl", "IsP2PK", fn.Pos(), "no path tests the error of DecodeParts")
		return
	}
	namer := func(k string) string {
		switch k {
		case "len(" + parts + ")":
			return "lenparts"
		case "len(" + parts + "[0])":
			return "len0"
		case "len(" + parts + "[1])":
			return "len1"
		case parts + "[0][0]":
			return "k0"
		case parts + "[1][0]":
			return "s0"
		}
		return ""
	}
	consistent := func(m map[string]int64) bool {
		// a part read needs the part to exist and the byte read needs it to be non-empty (engine P
		// proves the reads guarded); DecodeParts never yields an empty part except from a zero-length push
		if m["lenparts"] < 2 && (m["len1"] != 0 || m["s0"] != 0) {
			return false
		}
		if m["lenparts"] < 1 && (m["len0"] != 0 || m["k0"] != 0) {
			return false
		}
		if m["len0"] == 0 && m["k0"] != 0 {
			return false
		}
		if m["len1"] == 0 && m["s0"] != 0 {
			return false
		}
		// a second part that is a longer push starting with 0xac is not the template's OP_CHECKSIG
		// token; whether such a script counts is left to the code (the property asks for template
		// instances to be recognised, and today's code looks at the first byte only)
		if m["len1"] > 1 && m["s0"] == 0xac {
			return false
		}
		return true
	}
	spec := func(m map[string]int64) bool {
		if m["lenparts"] != 2 || m["len1"] < 1 || m["s0"] != 0xac {
			return false
		}
		switch m["k0"] {
		case 2, 3:
			return m["len0"] == 33
		case 4, 6, 7:
			return m["len0"] == 65
		}
		return false
	}
	boolTableOn(c, "T-tmpl", "IsP2PK", fn, paths, namer, consistent, spec,
		map[string][]int64{"k0": {2, 3, 4, 6, 7}, "len0": {33, 65}, "lenparts": {2}, "s0": {0xac}, "len1": {1}})
}

// ruleTTmplMultisig: the bare-multisig recogniser. (a) isSmallIntOp on all 256 opcode bytes: OP_0 and
// OP_1..OP_16. (b) IsMultiSigOut over the decoded parts for scripts of up to three parts (the shape without
// keys, where its scan of the middle parts runs zero times): fewer than three parts are never multisig; with
// three, the first and the one before last are non-empty small-integer opcodes and the last starts with
// OP_CHECKMULTISIG. Longer scripts (the scan of the keys) are not part of this table.
func ruleTTmplMultisig(c *Ctx) {
	if fn := c.P.Func("bscript", "", "isSmallIntOp"); fn != nil {
		if ps, err := feasiblePaths(fn, 256); err != nil {
			c.Undecided("T-tmpl", "isSmallIntOp", fn.Pos(), "cannot enumerate paths: "+err.Error())
		} else {
			boolTableOn(c, "T-tmpl", "isSmallIntOp", fn, ps, func(k string) string {
				if k == "p0" {
					return "b"
				}
				return ""
			}, func(map[string]int64) bool { return true }, func(m map[string]int64) bool {
				v := m["b"]
				return v == 0 || (v >= 0x51 && v <= 0x60)
			}, map[string][]int64{"b": {0, 0x50, 0x51, 0x60, 0x61}})
		}
	} else {
		c.Undecided("T-tmpl", "isSmallIntOp", token.NoPos, "not found")
	}
	fn := c.P.Func("bscript", "*Script", "IsMultiSigOut")
	if fn == nil {
		c.Undecided("T-tmpl", "IsMultiSigOut", token.NoPos, "not found")
		return
	}
	all, err := feasiblePaths(fn, 8192)
	if err != nil {
		c.Undecided("T-tmpl", "IsMultiSigOut", fn.Pos(), "cannot enumerate paths: "+err.Error())
		return
	}
	var paths []*DPath
	parts := ""
	for _, p := range all {
		errPath := false
		var keep []PathCond
		for _, cd := range p.Conds {
			s := cd.Cond.String()
			if m := decodeErrRe.FindStringSubmatch(s); m != nil {
				parts = m[1] + "#0"
				if (strings.Contains(s, "!= nil")) == cd.Truth {
					errPath = true
				}
				continue
			}
			keep = append(keep, cd)
		}
		if errPath || p.EndKind != "return" {
			continue // the scan of the middle parts going round: not in this table
		}
		q := *p
		q.Conds = keep
		paths = append(paths, &q)
	}
	if parts == "" || len(paths) == 0 {
		c.Undecided("T-tmpl", "IsMultiSigOut", fn.Pos(), "no path tests the error of DecodeParts")
		return
	}
	n := "len(" + parts + ")"
	pen := parts + "[(" + n + " - 2)]"
	last := parts + "[(" + n + " - 1)]"
	callRe := regexp.MustCompile(`^bscript\.isSmallIntOp@\d+\((.*)\)$`)
	keyLens := map[string]string{}
	namer := func(k string) string {
		switch k {
		case n:
			return "lenparts"
		case "len(" + parts + "[0])":
			return "len0"
		case "len(" + parts + "[1])":
			return "lenK" // the first key, looked at by the scan: only with more than three parts
		case "len(" + pen + ")":
			return "lenM"
		case "len(" + last + ")":
			return "lenL"
		case last + "[0]":
			return "op"
		}
		if m := callRe.FindStringSubmatch(k); m != nil {
			switch m[1] {
			case parts + "[0][0]":
				return "sm0"
			case pen + "[0]":
				return "smM"
			}
		}
		// the length of a key the scan looks at, however the scan spells the element: only with more than
		// three parts (kept at zero in this table)
		if strings.HasPrefix(k, "len("+parts+"[") {
			if _, seen := keyLens[k]; !seen {
				keyLens[k] = fmt.Sprintf("lenK%d", len(keyLens)+1)
			}
			return keyLens[k]
		}
		return ""
	}
	consistent := func(m map[string]int64) bool {
		for name, v := range m {
			if strings.HasPrefix(name, "lenK") && v != 0 {
				return false
			}
		}
		if m["lenparts"] > 3 || m["lenK"] != 0 {
			return false // the scan of the keys runs: outside this table
		}
		if m["sm0"] > 1 || m["smM"] > 1 {
			return false
		}
		if m["lenparts"] < 3 {
			// parts that do not exist are not read (engine P proves the reads guarded)
			return m["len0"] == 0 && m["lenM"] == 0 && m["lenL"] == 0 && m["op"] == 0 && m["sm0"] == 0 && m["smM"] == 0
		}
		if m["len0"] == 0 && m["sm0"] != 0 || m["lenM"] == 0 && m["smM"] != 0 || m["lenL"] == 0 && m["op"] != 0 {
			return false
		}
		return true
	}
	spec := func(m map[string]int64) bool {
		return m["lenparts"] == 3 && m["len0"] >= 1 && m["sm0"] == 1 && m["lenM"] >= 1 && m["smM"] == 1 && m["lenL"] >= 1 && m["op"] == 0xae
	}
	boolTableOn(c, "T-tmpl", "IsMultiSigOut", fn, paths, namer, consistent, spec,
		map[string][]int64{"lenparts": {0, 1, 2, 3, 4}, "len0": {0, 1, 2}, "lenM": {0, 1, 2}, "lenL": {0, 1, 2}, "op": {0xae}, "sm0": {0, 1}, "smM": {0, 1}, "lenK": {0, 1}})
}

var decodeErrRe = regexp.MustCompile(`^\(?(bscript\.DecodeParts@\d+\(\*p0\))#1 [!=]= nil\)?$`)
