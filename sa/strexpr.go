package main

// String expressions: the text a function returns, as pieces, read through the helpers it is built by.
//   lit("...")            constant text
//   verb(%.2x, Field)     a struct field printed by a Sprintf verb (hex.EncodeToString(x.F) is verb(%x, F))
//   hex(B)                lower-case hex of a byte expression
// Byte expressions: sha256d(B), bytes(S) for []byte(S) of a string expression, B[lo:hi].
// fmt.Sprintf("%.8x" / "%08x", binary.BigEndian.Uint32(B)) is hex(B[0:4]): eight lower-case digits of the
// first four bytes, exactly what hex.EncodeToString(B[:4]) prints.

import (
	"fmt"
	"go/constant"
	"go/token"
	"go/types"
	"strings"

	"golang.org/x/tools/go/ssa"
)

type sxEnv struct {
	sub   map[ssa.Value]ssa.Value // callee parameter -> caller's value
	depth int
}

func (e *sxEnv) val(v ssa.Value) ssa.Value {
	for i := 0; i < 16; i++ {
		if s, ok := e.sub[v]; ok {
			v = s
			continue
		}
		break
	}
	return v
}

type sxPiece struct {
	kind  string // lit verb hex
	text  string // lit: the text; verb: the verb
	field string // verb: the field
	b     string // hex: the canonical byte expression
}

func (p sxPiece) String() string {
	switch p.kind {
	case "lit":
		return fmt.Sprintf("lit(%q)", p.text)
	case "verb":
		return "verb(" + p.text + "," + p.field + ")"
	}
	return "hex(" + p.b + ")"
}

func sxString(ps []sxPiece) string {
	var s []string
	for _, p := range ps {
		s = append(s, p.String())
	}
	return strings.Join(s, " ")
}

// singleResult: the value a module function returns as result #idx on its non-error returns, when it is the
// same on all of them.
func singleResult(fn *ssa.Function, idx int) ssa.Value {
	var out ssa.Value
	for _, b := range fn.Blocks {
		r, ok := b.Instrs[len(b.Instrs)-1].(*ssa.Return)
		if !ok || idx >= len(r.Results) {
			continue
		}
		if n := len(r.Results); n >= 2 && isErrorType(r.Results[n-1].Type()) && returnKinds(r.Results[n-1]) == 2 {
			continue
		}
		if out != nil && out != r.Results[idx] {
			return nil
		}
		out = r.Results[idx]
	}
	return out
}

// calleeResult: v is (an Extract of) a call of a module function: the callee's returned value and the
// environment binding its parameters.
func (e *sxEnv) calleeResult(v ssa.Value) (ssa.Value, *sxEnv, bool) {
	idx := 0
	if ex, ok := v.(*ssa.Extract); ok {
		idx = ex.Index
		v = ex.Tuple
	}
	call, ok := v.(*ssa.Call)
	if !ok || e.depth > 6 {
		return nil, nil, false
	}
	sc := call.Call.StaticCallee()
	if sc == nil || !inScope(pkgPathOf(sc)) || len(sc.Blocks) == 0 {
		return nil, nil, false
	}
	r := singleResult(sc, idx)
	if r == nil {
		return nil, nil, false
	}
	ne := &sxEnv{sub: map[ssa.Value]ssa.Value{}, depth: e.depth + 1}
	for k, x := range e.sub {
		ne.sub[k] = x
	}
	for i, p := range sc.Params {
		if i < len(call.Call.Args) {
			ne.sub[p] = e.val(call.Call.Args[i])
		}
	}
	return r, ne, true
}

func (e *sxEnv) str(v ssa.Value) ([]sxPiece, bool) {
	v = e.val(v)
	switch x := v.(type) {
	case *ssa.Const:
		if x.Value != nil && x.Value.Kind() == constant.String {
			return []sxPiece{{kind: "lit", text: constant.StringVal(x.Value)}}, true
		}
	case *ssa.BinOp:
		if x.Op == token.ADD {
			l, ok1 := e.str(x.X)
			r, ok2 := e.str(x.Y)
			return append(l, r...), ok1 && ok2
		}
	case *ssa.Call:
		if sc := x.Call.StaticCallee(); sc != nil {
			switch sc.String() {
			case "fmt.Sprintf":
				return e.sprintf(x)
			case "strconv.FormatUint", "strconv.FormatInt":
				// the digits of a number in some base, without padding
				if base, ok := constInt(x.Call.Args[1]); ok {
					if b, ok := e.beUint32(x.Call.Args[0]); ok {
						return []sxPiece{{kind: "hex", b: fmt.Sprintf("digits-base-%s-unpadded(%s[0:4])", base.String(), b)}}, true
					}
				}
				return nil, false
			case "encoding/hex.EncodeToString":
				a := e.val(x.Call.Args[0])
				if f := valueFieldName(a); f != "?" {
					return []sxPiece{{kind: "verb", text: "%x", field: f}}, true
				}
				if b, ok := e.bytes(a); ok {
					return []sxPiece{{kind: "hex", b: b}}, true
				}
				return nil, false
			}
		}
	}
	if r, ne, ok := e.calleeResult(v); ok {
		return ne.str(r)
	}
	return nil, false
}

func (e *sxEnv) bytes(v ssa.Value) (string, bool) {
	v = e.val(v)
	switch x := v.(type) {
	case *ssa.Convert:
		if ps, ok := e.str(x.X); ok {
			return "bytes(" + sxString(ps) + ")", true
		}
	case *ssa.Slice:
		b, ok := e.bytes(x.X)
		if !ok {
			return "", false
		}
		lo, hi := "0", ""
		if x.Low != nil {
			k, ok := constInt(x.Low)
			if !ok {
				return "", false
			}
			lo = k.String()
		}
		if x.High != nil {
			k, ok := constInt(x.High)
			if !ok {
				return "", false
			}
			hi = k.String()
		}
		return b + "[" + lo + ":" + hi + "]", true
	case *ssa.Call:
		if sc := x.Call.StaticCallee(); sc != nil && strings.HasSuffix(sc.String(), "crypto.Sha256d") {
			b, ok := e.bytes(x.Call.Args[0])
			return "sha256d(" + b + ")", ok
		}
	}
	if r, ne, ok := e.calleeResult(v); ok {
		return ne.bytes(r)
	}
	return "", false
}

// beUint32: v is binary.BigEndian.Uint32(B) (possibly through helpers): B.
func (e *sxEnv) beUint32(v ssa.Value) (string, bool) {
	v = e.val(v)
	if cv, ok := v.(*ssa.Convert); ok {
		v = e.val(cv.X)
	}
	if call, ok := v.(*ssa.Call); ok {
		if sc := call.Call.StaticCallee(); sc != nil && sc.String() == "(encoding/binary.bigEndian).Uint32" && len(call.Call.Args) == 2 {
			return e.bytes(call.Call.Args[1])
		}
	}
	if r, ne, ok := e.calleeResult(v); ok {
		return ne.beUint32(r)
	}
	return "", false
}

func (e *sxEnv) sprintf(call *ssa.Call) ([]sxPiece, bool) {
	k, ok := call.Call.Args[0].(*ssa.Const)
	if !ok || k.Value == nil || k.Value.Kind() != constant.String {
		return nil, false
	}
	format := constant.StringVal(k.Value)
	var args []ssa.Value
	if sl, ok := call.Call.Args[1].(*ssa.Slice); ok {
		if al, ok := sl.X.(*ssa.Alloc); ok && al.Referrers() != nil {
			byIdx := map[int64]ssa.Value{}
			for _, r := range *al.Referrers() {
				ia, ok := r.(*ssa.IndexAddr)
				if !ok || ia.Referrers() == nil {
					continue
				}
				idx, _ := constInt(ia.Index)
				for _, rr := range *ia.Referrers() {
					if st, ok := rr.(*ssa.Store); ok {
						v := st.Val
						if mi, ok := v.(*ssa.MakeInterface); ok {
							v = mi.X
						}
						byIdx[idx.Int64()] = v
					}
				}
			}
			for i := int64(0); i < int64(len(byIdx)); i++ {
				args = append(args, byIdx[i])
			}
		}
	}
	var out []sxPiece
	lit := ""
	flush := func() {
		if lit != "" {
			out = append(out, sxPiece{kind: "lit", text: lit})
			lit = ""
		}
	}
	ai := 0
	for i := 0; i < len(format); i++ {
		if format[i] != '%' {
			lit += string(format[i])
			continue
		}
		j := i + 1
		for j < len(format) && strings.ContainsRune("0123456789.+-# ", rune(format[j])) {
			j++
		}
		if j >= len(format) {
			return nil, false
		}
		if format[j] == '%' {
			lit += "%"
			i = j
			continue
		}
		verb := format[i : j+1]
		if ai >= len(args) {
			return nil, false
		}
		a := e.val(args[ai])
		ai++
		i = j
		flush()
		// %s / %v of a value whose type has a String method prints what that method returns
		if verb == "%s" || verb == "%v" {
			if m := stringMethodOf(a.Type()); m != nil {
				if r := singleResult(m, 0); r != nil && len(m.Params) == 1 {
					ne := &sxEnv{sub: map[ssa.Value]ssa.Value{}, depth: e.depth + 1}
					for k, x := range e.sub {
						ne.sub[k] = x
					}
					ne.sub[m.Params[0]] = a
					ps, ok := ne.str(r)
					if !ok {
						return nil, false
					}
					out = append(out, ps...)
					continue
				}
			}
		}
		if f := e.fieldNameOf(a); f != "?" {
			out = append(out, sxPiece{kind: "verb", text: verb, field: f})
			continue
		}
		switch verb {
		case "%s", "%v":
			ps, ok := e.str(a)
			if !ok {
				return nil, false
			}
			out = append(out, ps...)
		case "%.8x", "%08x":
			b, ok := e.beUint32(a)
			if !ok {
				return nil, false
			}
			out = append(out, sxPiece{kind: "hex", b: b + "[0:4]"})
		case "%x":
			b, ok := e.bytes(a)
			if !ok {
				return nil, false
			}
			out = append(out, sxPiece{kind: "hex", b: b})
		default:
			return nil, false
		}
	}
	flush()
	// adjacent literals merge
	var merged []sxPiece
	for _, p := range out {
		if n := len(merged); n > 0 && p.kind == "lit" && merged[n-1].kind == "lit" {
			merged[n-1].text += p.text
			continue
		}
		merged = append(merged, p)
	}
	return merged, true
}

// textReturned: the pieces of the string result #idx of fn on its returns other than the constant `skip`.
func textReturned(fn *ssa.Function, idx int, skip string) ([]sxPiece, bool) {
	var out []sxPiece
	n := 0
	for _, b := range fn.Blocks {
		r, ok := b.Instrs[len(b.Instrs)-1].(*ssa.Return)
		if !ok || idx >= len(r.Results) {
			continue
		}
		if k, isK := r.Results[idx].(*ssa.Const); isK && k.Value != nil && k.Value.Kind() == constant.String && constant.StringVal(k.Value) == skip {
			continue
		}
		e := &sxEnv{sub: map[ssa.Value]ssa.Value{}}
		ps, ok := e.str(r.Results[idx])
		if !ok {
			return nil, false
		}
		if n > 0 && sxString(ps) != sxString(out) {
			return nil, false
		}
		out = ps
		n++
	}
	return out, n > 0
}

// fieldNameOf: valueFieldName through the environment's bindings and value-preserving conversions.
func (e *sxEnv) fieldNameOf(v ssa.Value) string {
	for i := 0; i < 8; i++ {
		v = e.val(v)
		switch x := v.(type) {
		case *ssa.Convert:
			v = x.X
			continue
		case *ssa.ChangeType:
			v = x.X
			continue
		}
		break
	}
	return valueFieldName(v)
}

// stringMethodOf: the module's String() string method of a named type, if it has one.
func stringMethodOf(t types.Type) *ssa.Function {
	n, ok := t.(*types.Named)
	if !ok || theProg == nil || n.Obj().Pkg() == nil || !inScope(n.Obj().Pkg().Path()) {
		return nil
	}
	for i := 0; i < n.NumMethods(); i++ {
		m := n.Method(i)
		if m.Name() == "String" {
			sig := m.Type().(*types.Signature)
			if sig.Params().Len() == 0 && sig.Results().Len() == 1 {
				if pkg := theProg.SSAPkg(n.Obj().Pkg().Path()); pkg != nil {
					return pkg.Prog.FuncValue(m)
				}
			}
		}
	}
	return nil
}
