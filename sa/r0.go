package main

import (
	"go/ast"
	"go/token"
	"strings"
)

// ruleR0 re-asserts the facts the other analyses rely on: no unsafe, reflect,
// cgo, build-tagged or ignored files and no go statements in analysed packages.
func ruleR0(c *Ctx) {
	n := 0
	for _, pk := range c.P.ScopePkgs() {
		if len(pk.IgnoredFiles) > 0 {
			c.Undecided("R0", "ignored-files/"+pk.PkgPath, token.NoPos, "package has files excluded from the build (build tags?): "+strings.Join(pk.IgnoredFiles, ","))
		}
		for _, f := range pk.Syntax {
			n++
			for _, imp := range f.Imports {
				path := strings.Trim(imp.Path.Value, `"`)
				if path == "unsafe" || path == "reflect" || path == "C" {
					c.Undecided("R0", "import/"+pk.PkgPath+"/"+path, imp.Pos(), "import of "+path+" makes the ownership and panic analyses unsound")
				}
			}
			for _, cg := range f.Comments {
				for _, cm := range cg.List {
					if strings.HasPrefix(cm.Text, "//go:build") || strings.HasPrefix(cm.Text, "// +build") {
						c.Undecided("R0", "buildtag/"+pk.PkgPath, cm.Pos(), "build constraint in analysed package: "+cm.Text)
					}
					if strings.HasPrefix(cm.Text, "//go:linkname") {
						c.Undecided("R0", "linkname/"+pk.PkgPath, cm.Pos(), "go:linkname in analysed package")
					}
				}
			}
			ast.Inspect(f, func(nd ast.Node) bool {
				if g, ok := nd.(*ast.GoStmt); ok {
					c.Undecided("R0", "go-stmt/"+pk.PkgPath, g.Pos(), "go statement in library code: analyses assume single-threaded function bodies")
				}
				return true
			})
		}
	}
	c.OK("R0", "scope-clean", token.NoPos, "no unsafe/reflect/cgo/build tags/go statements in analysed packages")
	c.Covered["files_analysed"] = n
	c.Covered["packages_in_scope"] = len(c.P.ScopePkgs())
}
