package main

// T-hash (C05): each hash opcode applies the hash function(s) its definition names, in order, to the
// popped item, and pushes the final digest.

import (
	"fmt"
	"go/token"
	"strings"

	"golang.org/x/tools/go/ssa"
)

func ruleTHash(c *Ctx) {
	want := map[string][]string{
		"opcodeRipemd160": {"golang.org/x/crypto/ripemd160.New", "bscript/interpreter.calcHash"},
		"opcodeSha1":      {"crypto/sha1.Sum"},
		"opcodeSha256":    {"crypto/sha256.Sum256"},
		"opcodeHash160":   {"crypto/sha256.Sum256", "golang.org/x/crypto/ripemd160.New", "bscript/interpreter.calcHash"},
		"opcodeHash256":   {"github.com/libsv/go-bk/crypto.Sha256d"},
	}
	isHashFn := func(sc *ssa.Function) bool {
		s := sc.String()
		return strings.HasPrefix(s, "crypto/") || strings.Contains(s, "ripemd160") || strings.Contains(s, "go-bk/crypto") || sc.Name() == "calcHash"
	}
	n := 0
	for h, seq := range want {
		fn := c.P.Func("bscript/interpreter", "", h)
		if fn == nil {
			c.Undecided("T-hash", h, token.NoPos, "not found")
			continue
		}
		n++
		var got []string
		var calls []*ssa.Call
		var push *ssa.Call
		var pop *ssa.Call
		for _, b := range fn.Blocks {
			for _, ins := range b.Instrs {
				call, ok := ins.(*ssa.Call)
				if !ok {
					continue
				}
				sc := call.Call.StaticCallee()
				if sc == nil {
					continue
				}
				switch {
				case sc.Name() == "PopByteArray":
					pop = call
				case sc.Name() == "PushByteArray":
					push = call
				case isHashFn(sc):
					got = append(got, strings.TrimPrefix(funcName(sc), modPath+"/"))
					calls = append(calls, call)
				}
			}
		}
		for i := range got {
			got[i] = strings.TrimPrefix(got[i], "github.com/libsv/go-bt/v2/")
		}
		okSeq := strings.Join(got, " ; ") == strings.Join(seq, " ; ")
		// data flow: first hash of the item popped, pushed value from the last call
		okFlow := pop != nil && push != nil && len(calls) > 0
		if okFlow {
			dependsOn := func(v ssa.Value, target ssa.Value) bool {
				seen := map[ssa.Value]bool{}
				var walk func(x ssa.Value, d int) bool
				walk = func(x ssa.Value, d int) bool {
					if x == nil || d > 10 || seen[x] {
						return false
					}
					seen[x] = true
					if x == target {
						return true
					}
					switch y := x.(type) {
					case *ssa.Extract:
						return walk(y.Tuple, d+1)
					case *ssa.Slice:
						return walk(y.X, d+1)
					case *ssa.Alloc:
						// array result spilled to a local: stored from?
						if y.Referrers() != nil {
							for _, r := range *y.Referrers() {
								if st, ok := r.(*ssa.Store); ok && st.Addr == ssa.Value(y) && walk(st.Val, d+1) {
									return true
								}
							}
						}
					case *ssa.Call:
						for _, a := range y.Call.Args {
							if walk(a, d+1) {
								return true
							}
						}
					}
					return false
				}
				return walk(v, 0)
			}
			// the item popped feeds the first data-taking hash call; the push takes the last call's result
			first := calls[0]
			if first.Call.StaticCallee().Name() == "New" && len(calls) > 1 {
				first = calls[1]
			}
			okFlow = dependsOn(first.Call.Args[0], pop) && dependsOn(push.Call.Args[1], calls[len(calls)-1])
			// in a two-stage hash the second stage consumes the first stage's digest
			if len(seq) == 3 {
				okFlow = okFlow && dependsOn(calls[2].Call.Args[0], calls[0])
			}
		}
		c.Check(okSeq && okFlow, "T-hash", h, fn.Pos(), "applies "+strings.Join(seq, " then ")+" to the popped item and pushes the digest",
			fmt.Sprintf("%s applies [%s] (data flow from the popped item to the pushed digest intact: %v); its definition is [%s]", h, strings.Join(got, " ; "), okFlow, strings.Join(seq, " ; ")))
	}
	c.MinInstances("T-hash", n, 5)
	// calcHash writes the data and returns Sum(nil)
	if fn := c.P.Func("bscript/interpreter", "", "calcHash"); fn != nil {
		var ev []string
		for _, b := range fn.Blocks {
			for _, ins := range b.Instrs {
				if call, ok := ins.(*ssa.Call); ok && call.Call.IsInvoke() {
					arg := "?"
					if len(call.Call.Args) > 0 {
						arg = atomName(newTermEnv().Term(call.Call.Args[0]))
					}
					ev = append(ev, call.Call.Method.Name()+"("+arg+")")
				}
			}
		}
		c.Check(strings.Join(ev, ";") == "Write(p0);Sum(nil)", "T-hash", "calcHash", fn.Pos(), "hasher.Write(data) then hasher.Sum(nil)", "calcHash no longer hashes exactly its argument: "+strings.Join(ev, ";"))
	}
}
