package main

// Elementwise equality loops: a boolean function of the shape
//   for i := lo; i <= hi; i++ { if X[i+c1] != Y[i+c2] { return false } }; return true
// states X[lo+c1 : hi+c1+1] == Y[lo+c2 : hi+c2+1]. Recognised on the SSA form; every return of the function
// must be the "false" inside the loop or the "true" after it.

import (
	"go/constant"
	"go/token"

	"golang.org/x/tools/go/ssa"
)

type rangeEq struct {
	X, Y           ssa.Value // the indexed values (array pointer or slice)
	XLo, XHi       int64     // [XLo, XHi)
	YLo, YHi       int64
	trueOnEquality bool
}

func elementwiseEq(fn *ssa.Function) *rangeEq {
	if fn == nil || len(fn.Blocks) == 0 || fn.Signature.Results().Len() != 1 || !isBoolType(fn.Signature.Results().At(0).Type()) {
		return nil
	}
	var h *ssa.BasicBlock
	for _, b := range fn.Blocks {
		if isLoopHeader(b) {
			if h != nil {
				return nil
			}
			h = b
		}
	}
	if h == nil {
		return nil
	}
	iff, ok := h.Instrs[len(h.Instrs)-1].(*ssa.If)
	if !ok {
		return nil
	}
	test, ok := iff.Cond.(*ssa.BinOp)
	if !ok {
		return nil
	}
	i, ok := test.X.(*ssa.Phi)
	if !ok || i.Block() != h || !phiStepsByOne(i, h) {
		return nil
	}
	var lo int64 = -1
	for k, p := range h.Preds {
		if !h.Dominates(p) {
			c, ok := constInt(i.Edges[k])
			if !ok {
				return nil
			}
			lo = c.Int64()
		}
	}
	bound, ok := constInt(test.Y)
	if !ok || lo < 0 {
		return nil
	}
	hi := bound.Int64() // exclusive
	switch test.Op {
	case token.LEQ:
		hi++
	case token.LSS:
	default:
		return nil
	}
	body, done := h.Succs[0], h.Succs[1]
	// after the loop: return true
	retConst := func(b *ssa.BasicBlock) (bool, bool) {
		if len(b.Instrs) != 1 {
			return false, false
		}
		r, ok := b.Instrs[0].(*ssa.Return)
		if !ok || len(r.Results) != 1 {
			return false, false
		}
		k, ok := r.Results[0].(*ssa.Const)
		if !ok || k.Value == nil || k.Value.Kind() != constant.Bool {
			return false, false
		}
		return constant.BoolVal(k.Value), true
	}
	if v, ok := retConst(done); !ok || !v {
		return nil
	}
	// the body: one comparison of two indexed loads, mismatch -> return false, else to the latch
	bi, ok := body.Instrs[len(body.Instrs)-1].(*ssa.If)
	if !ok {
		return nil
	}
	cmp, ok := bi.Cond.(*ssa.BinOp)
	if !ok || (cmp.Op != token.NEQ && cmp.Op != token.EQL) {
		return nil
	}
	mismatch, cont := body.Succs[0], body.Succs[1]
	if cmp.Op == token.EQL {
		mismatch, cont = cont, mismatch
	}
	if v, ok := retConst(mismatch); !ok || v {
		return nil
	}
	// cont leads back to the header without another exit
	for x, n := cont, 0; x != h; n++ {
		if n > 4 || len(x.Succs) != 1 {
			return nil
		}
		x = x.Succs[0]
	}
	elem := func(v ssa.Value) (ssa.Value, int64, bool) {
		ld, ok := v.(*ssa.UnOp)
		if !ok || ld.Op != token.MUL {
			return nil, 0, false
		}
		ia, ok := ld.X.(*ssa.IndexAddr)
		if !ok {
			return nil, 0, false
		}
		switch ix := ia.Index.(type) {
		case *ssa.Phi:
			if ix == i {
				return ia.X, 0, true
			}
		case *ssa.BinOp:
			if ix.X == ssa.Value(i) {
				if c, ok := constInt(ix.Y); ok {
					switch ix.Op {
					case token.ADD:
						return ia.X, c.Int64(), true
					case token.SUB:
						return ia.X, -c.Int64(), true
					}
				}
			}
		}
		return nil, 0, false
	}
	x, c1, ok1 := elem(cmp.X)
	y, c2, ok2 := elem(cmp.Y)
	if !ok1 || !ok2 {
		return nil
	}
	// nothing in the function writes memory (the compared values are what they were on entry)
	for _, b := range fn.Blocks {
		for _, ins := range b.Instrs {
			switch ins.(type) {
			case *ssa.Store, *ssa.MapUpdate:
				return nil
			}
		}
	}
	return &rangeEq{X: x, Y: y, XLo: lo + c1, XHi: hi + c1, YLo: lo + c2, YHi: hi + c2, trueOnEquality: true}
}
