package main

// S-reset (C07, premise of the trusted subScript slice): the code-separator position belongs to
// one script. Every store to thread.scriptIdx outside thread set-up is followed, on every path to
// the function's exit, by a store of 0 to thread.lastCodeSep; lastCodeSep is otherwise assigned only
// the current scriptOff (by OP_CODESEPARATOR). Hence whenever subScript runs, lastCodeSep is 0 or the
// offset of an executed opcode of the current script.

import (
	"go/constant"
	"go/token"

	"golang.org/x/tools/go/ssa"
)

func threadFieldStore(ins ssa.Instruction, field string) (*ssa.Store, bool) {
	st, ok := ins.(*ssa.Store)
	if !ok {
		return nil, false
	}
	fa, ok := st.Addr.(*ssa.FieldAddr)
	if !ok || namedOf(fa.X.Type()) != "thread" || fieldName(fa.X.Type(), fa.Field) != field {
		return nil, false
	}
	return st, true
}

func ruleSReset(c *Ctx) {
	setup := map[string]bool{"apply": true, "SetState": true}
	nIdx, nSep := 0, 0
	for _, fn := range pkgFunctions(c.P, interpPkg) {
		for _, b := range fn.Blocks {
			for i, ins := range b.Instrs {
				if st, ok := threadFieldStore(ins, "lastCodeSep"); ok {
					nSep++
					okVal := isZeroConst(st.Val)
					if ld, isLd := st.Val.(*ssa.UnOp); isLd && ld.Op == token.MUL {
						if fa, isFa := ld.X.(*ssa.FieldAddr); isFa && fieldName(fa.X.Type(), fa.Field) == "scriptOff" {
							okVal = true
						}
					}
					if setup[fn.Name()] {
						okVal = true
					}
					c.Check(okVal, "S-reset", "lastCodeSep-value/"+funcName(fn), st.Pos(), "lastCodeSep is assigned 0 or the current scriptOff", funcName(fn)+" assigns lastCodeSep a value other than 0 or the current script offset")
				}
				st, ok := threadFieldStore(ins, "scriptIdx")
				if !ok || setup[fn.Name()] {
					continue
				}
				nIdx++
				// forward walk: every path from here to an exit stores lastCodeSep = 0
				seen := map[*ssa.BasicBlock]bool{}
				var escapes func(blk *ssa.BasicBlock, from int) bool
				escapes = func(blk *ssa.BasicBlock, from int) bool {
					for _, x := range blk.Instrs[from:] {
						if s2, ok := threadFieldStore(x, "lastCodeSep"); ok && isZeroConst(s2.Val) {
							return false
						}
						switch x.(type) {
						case *ssa.Return, *ssa.Panic:
							return true
						}
					}
					for _, s := range blk.Succs {
						if seen[s] {
							continue
						}
						seen[s] = true
						if escapes(s, 0) {
							return true
						}
					}
					return false
				}
				c.Check(!escapes(b, i+1), "S-reset", "scriptIdx-store/"+funcName(fn), st.Pos(), "the script change is followed on every path by lastCodeSep = 0",
					funcName(fn)+" moves to another script without resetting lastCodeSep on some path: the stale separator position is applied to the next script (slice out of range in subScript, or the wrong script code is hashed)")
			}
		}
	}
	c.MinInstances("S-reset", nIdx, 2)
	c.Covered["S-reset:lastCodeSep_stores"] = nSep
}

// S-own: who may store the thread fields that trusted index arguments rely on. The table is
// the set of writers confirmed by reading; a new writer must be reviewed against the trusted
// reasons in trusted_sites.json that cite "not written during execution".
var threadFieldWriters = map[string][]string{
	"tx":          {"apply"},
	"inputIdx":    {"apply"},
	"prevOutput":  {"apply"},
	"cfg":         {"apply", "createThread"},
	"flags":       {"SetState", "apply"},
	"scripts":     {"SetState", "Step", "apply"},
	"scriptIdx":   {"SetState", "Step", "apply", "shiftScript"},
	"scriptOff":   {"SetState", "Step", "shiftScript"},
	"lastCodeSep": {"SetState", "Step", "opcodeCodeSeparator", "shiftScript"},
}

func ruleSOwn(c *Ctx) {
	got := map[string]map[string]bool{}
	pos := map[string]token.Pos{}
	for _, fn := range pkgFunctions(c.P, interpPkg) {
		for _, b := range fn.Blocks {
			for _, ins := range b.Instrs {
				st, ok := ins.(*ssa.Store)
				if !ok {
					continue
				}
				fa, ok := st.Addr.(*ssa.FieldAddr)
				if !ok || namedOf(fa.X.Type()) != "thread" {
					continue
				}
				f := fieldName(fa.X.Type(), fa.Field)
				if _, tracked := threadFieldWriters[f]; !tracked {
					continue
				}
				if got[f] == nil {
					got[f] = map[string]bool{}
				}
				// a helper outside the baseline list writes on behalf of the functions that call it
				for _, af := range attributedTo(c.P, fn) {
					got[f][af.Name()] = true
					pos[f+"/"+af.Name()] = st.Pos()
				}
			}
		}
	}
	for f, allowed := range threadFieldWriters {
		al := setOf(allowed...)
		for w := range got[f] {
			c.Check(al[w], "S-own", "thread."+f+"/"+w, pos[f+"/"+w], "thread."+f+" is written by a function of its confirmed writer set", "thread."+f+" is now also written by "+w+": index and conversion arguments that rely on this field being fixed during execution (trusted_sites.json) no longer hold without review")
		}
	}
	c.MinInstances("S-own", len(got), len(threadFieldWriters))
}

// S-perscript (C05, C07): what belongs to one script does not leak into the next. The operation count, the
// program offset, the early-return mark of a nested post-genesis OP_RETURN and the code-separator position
// are all per script: on every path through a function that moves thread.scriptIdx (outside thread set-up)
// each of them is reset - before or after the move, directly or by a callee that resets it on all its paths.
var perScriptFields = []string{"numOps", "scriptOff", "earlyReturnAfterGenesis", "lastCodeSep"}

func isFalseOrZero(v ssa.Value) bool {
	k, ok := v.(*ssa.Const)
	if !ok || k.Value == nil {
		return false
	}
	if k.Value.Kind() == constant.Bool {
		return !constant.BoolVal(k.Value)
	}
	return isZeroConst(v)
}

func ruleSPerScript(c *Ctx) {
	setup := map[string]bool{"apply": true, "SetState": true}
	// alwaysResets[fn][field]: every entry-to-exit path of fn stores the zero value to thread.field
	memo := map[*ssa.Function]map[string]int{} // 0 unknown, 1 yes, 2 no, 3 in progress
	var always func(fn *ssa.Function, field string) bool
	isReset := func(ins ssa.Instruction, field string) bool {
		if st, ok := threadFieldStore(ins, field); ok && isFalseOrZero(st.Val) {
			return true
		}
		if call, ok := ins.(*ssa.Call); ok {
			if sc := call.Call.StaticCallee(); sc != nil && len(sc.Blocks) > 0 && inScope(pkgPathOf(sc)) && sc.Signature.Recv() != nil && namedOf(sc.Signature.Recv().Type()) == "thread" {
				return always(sc, field)
			}
		}
		return false
	}
	// escapes: from instruction index `from` of blk an exit is reachable without passing a reset
	escapesFwd := func(blk *ssa.BasicBlock, from int, field string) bool {
		seen := map[*ssa.BasicBlock]bool{}
		var walk func(b *ssa.BasicBlock, from int) bool
		walk = func(b *ssa.BasicBlock, from int) bool {
			for _, x := range b.Instrs[from:] {
				if isReset(x, field) {
					return false
				}
				switch x.(type) {
				case *ssa.Return, *ssa.Panic:
					return true
				}
			}
			for _, s := range b.Succs {
				if !seen[s] {
					seen[s] = true
					if walk(s, 0) {
						return true
					}
				}
			}
			return false
		}
		return walk(blk, from)
	}
	// reachedBwd: the function's entry reaches instruction index `upto` of blk without passing a reset
	reachedBwd := func(blk *ssa.BasicBlock, upto int, field string) bool {
		seen := map[*ssa.BasicBlock]bool{}
		var walk func(b *ssa.BasicBlock, upto int) bool
		walk = func(b *ssa.BasicBlock, upto int) bool {
			for i := upto - 1; i >= 0; i-- {
				if isReset(b.Instrs[i], field) {
					return false
				}
			}
			if b.Index == 0 {
				return true
			}
			for _, p := range b.Preds {
				if !seen[p] {
					seen[p] = true
					if walk(p, len(p.Instrs)) {
						return true
					}
				}
			}
			return false
		}
		return walk(blk, upto)
	}
	always = func(fn *ssa.Function, field string) bool {
		if memo[fn] == nil {
			memo[fn] = map[string]int{}
		}
		switch memo[fn][field] {
		case 1:
			return true
		case 2, 3:
			return false
		}
		memo[fn][field] = 3
		ok := len(fn.Blocks) > 0 && !escapesFwd(fn.Blocks[0], 0, field)
		memo[fn][field] = 2
		if ok {
			memo[fn][field] = 1
		}
		return ok
	}
	n := 0
	for _, fn := range pkgFunctions(c.P, interpPkg) {
		if setup[fn.Name()] {
			continue
		}
		for _, b := range fn.Blocks {
			for i, ins := range b.Instrs {
				st, ok := threadFieldStore(ins, "scriptIdx")
				if !ok {
					continue
				}
				for _, f := range perScriptFields {
					n++
					leak := reachedBwd(b, i, f) && escapesFwd(b, i+1, f)
					c.Check(!leak, "S-perscript", "scriptIdx-store/"+funcName(fn)+"/"+f, st.Pos(), "thread."+f+" is reset on every path through "+fn.Name()+" that moves to another script",
						funcName(fn)+" moves to another script on a path that never resets thread."+f+": what the previous script left there (operations counted, offset, the early-return mark of a nested OP_RETURN, a separator position) is applied to the next script")
				}
			}
		}
	}
	c.MinInstances("S-perscript", n, 8)
}
