package main

// C12 rules: funding.
//   S-fund  shape of Tx.Fund: the supplier is asked only while a deficit remains, with the
//           current deficit, its batch goes unmodified to FromUTXOs, the deficit is recomputed
//           before the next test, exhaustion leads to ErrInsufficientFunds iff a deficit remains
//   G-map   FromUTXOs: one new Input per UTXO in order, fields copied one to one, final sequence
//   O-pure  Fund writes nothing under tx but the Inputs list

import (
	"fmt"
	"go/constant"
	"go/token"
	"sort"
	"strings"

	"golang.org/x/tools/go/ssa"
)

// feasiblePaths enumerates acyclic paths and drops those that take the same condition both ways.
func feasiblePaths(fn *ssa.Function, limit int) ([]*DPath, error) {
	paths, err := enumPaths(fn.Blocks[0], nil, nil, limit)
	if err != nil {
		return nil, err
	}
	return filterFeasible(paths), nil
}

// filterFeasible drops the paths that take the same condition both ways.
func filterFeasible(paths []*DPath) []*DPath {
	var out []*DPath
	for _, d := range paths {
		seen := map[string]bool{}
		ok := true
		for _, pc := range d.Conds {
			// canonical comparison, so that x == nil taken true contradicts x != nil taken true
			k, flip := canonAtom(pc.Cond.String())
			tr := pc.Truth != flip
			if prev, dup := seen[k]; dup && prev != tr {
				ok = false
				break
			}
			seen[k] = tr
		}
		if ok {
			out = append(out, d)
		}
	}
	return out
}

// returnDesc names what a path returns as its error: nil, a package-level Err* variable, or "err".
func returnDesc(d *DPath) string {
	if d.EndKind != "return" {
		return d.EndKind
	}
	if d.Ret == nil || len(d.Ret.Results) == 0 {
		return "return"
	}
	r := d.Ret.Results[len(d.Ret.Results)-1]
	if !isErrorType(r.Type()) {
		return "return"
	}
	r = d.Env.Val(r) // through the path's phi choices and through helpers read as part of the function
	if ld, ok := r.(*ssa.UnOp); ok && ld.Op == token.MUL {
		switch a := ld.X.(type) {
		case *ssa.Alloc:
			for _, ins := range pathInstrs(d) {
				if st, ok := ins.(*ssa.Store); ok && st.Addr == ssa.Value(a) {
					r = st.Val
				}
			}
		case *ssa.Global:
			return "return " + a.Name()
		}
	}
	if ld, ok := r.(*ssa.UnOp); ok && ld.Op == token.MUL {
		if g, ok := ld.X.(*ssa.Global); ok {
			return "return " + g.Name()
		}
	}
	if k, ok := r.(*ssa.Const); ok && k.Value == nil {
		return "return nil"
	}
	// an error value the path has tested to be nil is nil
	rt := d.Env.Term(r).String() // with call ordinals: two calls of one function are different values
	for _, pc := range d.Conds {
		a, flip := canonAtom(pc.Cond.String())
		if a == "("+rt+" == nil)" && pc.Truth != flip {
			return "return nil"
		}
	}
	return "return err"
}

func ruleSFund(c *Ctx) {
	fn := c.P.Func("", "*Tx", "Fund")
	if fn == nil {
		c.Undecided("S-fund", "Tx.Fund", token.NoPos, "not found")
		return
	}
	tx, fq, next := fn.Params[0], fn.Params[2], fn.Params[3]
	// locate the calls
	var nextCalls, estCalls, fromCalls []*ssa.Call
	for _, b := range fn.Blocks {
		for _, ins := range b.Instrs {
			call, ok := ins.(*ssa.Call)
			if !ok {
				continue
			}
			if call.Call.Value == ssa.Value(next) {
				nextCalls = append(nextCalls, call)
			}
			if sc := call.Call.StaticCallee(); sc != nil {
				switch funcName(sc) {
				case "(*bt.Tx).estimateDeficit":
					estCalls = append(estCalls, call)
				case "(*bt.Tx).FromUTXOs":
					fromCalls = append(fromCalls, call)
				}
			}
		}
	}
	c.Check(len(nextCalls) == 1, "S-fund", "supplier/one-call-site", fn.Pos(), "the supplier has one call site", fmt.Sprintf("the supplier is called at %d sites", len(nextCalls)))
	if len(nextCalls) != 1 {
		return
	}
	nc := nextCalls[0]
	// the supplier is called inside a loop
	var header *ssa.BasicBlock
	for x := nc.Block(); x != nil; x = x.Idom() {
		if isLoopHeader(x) {
			header = x
			break
		}
	}
	if header == nil {
		c.Fail("S-fund", "supplier/in-loop", nc.Pos(), "the supplier call is not inside a loop")
		return
	}
	// what the supplier is given: an estimateDeficit(fq) result of the receiver (directly, or merged
	// at the loop head from such results)
	isEstimate := func(v ssa.Value) bool {
		ex, ok := v.(*ssa.Extract)
		if !ok || ex.Index != 0 {
			return false
		}
		call, ok := ex.Tuple.(*ssa.Call)
		return ok && call.Call.StaticCallee() != nil && funcName(call.Call.StaticCallee()) == "(*bt.Tx).estimateDeficit" && call.Call.Args[0] == ssa.Value(tx) && call.Call.Args[1] == ssa.Value(fq)
	}
	deficit := nc.Call.Args[1]
	edgesOK := isEstimate(deficit)
	if ph, ok := deficit.(*ssa.Phi); ok {
		edgesOK = len(ph.Edges) > 0
		for _, e := range ph.Edges {
			if !isEstimate(e) {
				edgesOK = false
			}
		}
	}
	argOK := len(nc.Call.Args) == 2 && nc.Call.Args[0] == ssa.Value(fn.Params[1])
	c.Check(argOK && edgesOK, "S-fund", "supplier/given-current-deficit", nc.Pos(), "the supplier receives the caller's context and an estimateDeficit(fq) result of the receiver", "the supplier is not given the current deficit (second argument is not an estimateDeficit result of the transaction being funded)")
	// the call is reached only with that value different from zero
	guardOK := false
	for _, dc := range dominatingConds(nc.Block()) {
		bo, ok := dc.cond.(*ssa.BinOp)
		if !ok || bo.X != deficit || !isZeroConst(bo.Y) {
			continue
		}
		switch bo.Op {
		case token.NEQ, token.GTR:
			guardOK = guardOK || dc.truth
		case token.EQL:
			guardOK = guardOK || !dc.truth
		}
	}
	// ... or by a boolean the same estimate returns with it, where estimateDeficit's own paths show that it
	// is true exactly when the deficit is zero
	coveredIdx := -1
	if ex, ok := deficit.(*ssa.Extract); ok {
		if call, ok := ex.Tuple.(*ssa.Call); ok {
			for _, dc := range dominatingConds(nc.Block()) {
				if ex2, ok := dc.cond.(*ssa.Extract); ok && ex2.Tuple == ssa.Value(call) && ex2.Index != 0 && isBoolType(ex2.Type()) && !dc.truth {
					if boolResultMeansZero(call.Call.StaticCallee(), ex2.Index) {
						guardOK = true
						coveredIdx = ex2.Index
					}
				}
			}
		}
	}
	c.Check(guardOK, "S-fund", "supplier/only-while-deficit", nc.Pos(), "the supplier call is dominated by the test deficit != 0 on the value it is given", "the supplier can be called although no deficit remains (its call is not guarded by a test of the deficit it is given)")
	// the estimate is fresh: on every path the last funding event before the supplier call is
	// estimateDeficit, the last one before FromUTXOs is the supplier call (forward must-analysis over the
	// control-flow graph, loop edges included)
	last := map[*ssa.BasicBlock]string{}
	evOf := func(ins ssa.Instruction) string {
		call, ok := ins.(*ssa.Call)
		if !ok {
			return ""
		}
		if call == nc {
			return "supplier"
		}
		if sc := call.Call.StaticCallee(); sc != nil {
			switch funcName(sc) {
			case "(*bt.Tx).estimateDeficit":
				return "estimate"
			case "(*bt.Tx).FromUTXOs":
				return "add"
			}
		}
		return ""
	}
	stale := ""
	for iter := 0; iter < 10; iter++ {
		changed := false
		for _, b := range fn.Blocks {
			in := ""
			for i, p := range b.Preds {
				o, seen := last[p]
				if !seen {
					continue
				}
				if i == 0 || in == "" {
					in = o
				} else if in != o {
					in = "mixed"
				}
			}
			if b.Index == 0 {
				in = "entry"
			}
			cur := in
			for _, ins := range b.Instrs {
				e := evOf(ins)
				if e == "" {
					continue
				}
				if iter == 9 {
					if e == "supplier" && cur != "estimate" {
						stale = "the supplier is called with " + cur + " as the last funding step before it: the deficit it is given is not the current one"
					}
					if e == "add" && cur != "supplier" {
						stale = "FromUTXOs runs with " + cur + " as the last funding step before it"
					}
				}
				cur = e
			}
			if last[b] != cur {
				last[b] = cur
				changed = true
			}
		}
		if !changed && iter < 8 {
			iter = 8
		}
	}
	c.Check(stale == "", "S-fund", "deficit/recomputed", nc.Pos(), "on every path the deficit handed to the supplier was estimated after the last batch was added", "the deficit is not recomputed from the transaction after each batch: "+stale)
	// the batch goes to FromUTXOs unmodified
	batchOK := false
	if len(fromCalls) == 1 {
		fc := fromCalls[0]
		if ex, ok := fc.Call.Args[1].(*ssa.Extract); ok && ex.Index == 0 && ex.Tuple == ssa.Value(nc) && fc.Call.Args[0] == ssa.Value(tx) {
			batchOK = true
			// no other use of the batch that could modify it
			if ex.Referrers() != nil {
				for _, r := range *ex.Referrers() {
					if r != ssa.Instruction(fc) {
						if _, isDbg := r.(*ssa.DebugRef); !isDbg {
							batchOK = false
						}
					}
				}
			}
		}
	}
	c.Check(batchOK, "S-fund", "batch/passed-through", nc.Pos(), "the supplier's batch is handed to FromUTXOs as returned", "the supplier's batch is filtered, reordered or otherwise touched before FromUTXOs")
	// path shapes
	names := map[string]bool{"FromUTXOs": true, "Is": true} // (where the estimate stands is decided by deficit/recomputed)
	paths, err := feasiblePaths(fn, 5000)
	if err != nil {
		c.Undecided("S-fund", "paths", fn.Pos(), err.Error())
		return
	}
	got := map[string]bool{}
	for _, d := range paths {
		var ev []string
		for _, ins := range pathInstrs(d) {
			if call, ok := ins.(*ssa.Call); ok {
				if call == nc {
					ev = append(ev, "supplier")
				} else if sc := call.Call.StaticCallee(); sc != nil && names[sc.Name()] {
					n := sc.Name()
					if n == "Is" {
						// a pure test: it shows in the shape only where it holds on the path
						holds := false
						for _, pc := range d.Conds {
							if pc.Cond.V == ssa.Value(call) && pc.Truth {
								holds = true
							}
						}
						if !holds {
							continue
						}
						n = "errors.Is(" + globalArgName(call.Call.Args[1]) + ")"
					}
					ev = append(ev, n)
				}
			}
		}
		ev = append(ev, returnDesc(d))
		got[strings.Join(ev, "; ")] = true
		if returnDesc(d) == "return nil" {
			// success is reported only when an estimate was zero
			zero := false
			for _, pc := range d.Conds {
				a, flip := canonAtom(atomName(pc.Cond))
				if strings.Contains(a, "estimateDeficit(p0, p2)#0 == 0)") && pc.Truth != flip {
					zero = true
				}
				if coveredIdx > 0 && a == fmt.Sprintf("(*bt.Tx).estimateDeficit(p0, p2)#%d", coveredIdx) && pc.Truth {
					zero = true // the estimate's own verdict, equivalent to a zero deficit (see only-while-deficit)
				}
			}
			if !zero {
				c.Fail("S-fund", "success-without-zero-deficit", d.Ret.Pos(), "Fund can return nil on a path on which no estimated deficit was found to be zero: "+shorten(d.CondString(), 300))
			}
		}
	}
	want := setOf(
		"return err",
		"return nil",
		"supplier; errors.Is(ErrNoUTXO); return ErrInsufficientFunds",
		"supplier; return err",
		"supplier; FromUTXOs; return err",
		"supplier; FromUTXOs; loop",
	)
	same := len(got) == len(want)
	for k := range got {
		if !want[k] {
			same = false
		}
	}
	c.Check(same, "S-fund", "paths", fn.Pos(), "feasible path shapes: "+strings.Join(keysSorted(got), " | "),
		fmt.Sprintf("Fund's control flow changed: feasible path shapes {%s}, specified {%s}", strings.Join(keysSorted(got), " | "), strings.Join(keysSorted(want), " | ")))
	// O-pure: only tx.Inputs is written
	oCommon(c, oEngine(c), "O-pure")
	rulePureParam(c, "O-pure", "", "*Tx", "Fund", 0, func(w *OWrite) (bool, string) {
		if w.Path == ".Inputs" || strings.HasPrefix(w.Path, ".Inputs[") && !strings.Contains(strings.TrimPrefix(w.Path, ".Inputs[*]"), ".") {
			return true, "inputs are appended"
		}
		return false, ""
	})
	rulePureParam(c, "O-pure", "", "*Tx", "estimateDeficit", 0, nil)
}

func globalArgName(v ssa.Value) string {
	if ld, ok := v.(*ssa.UnOp); ok {
		if g, ok := ld.X.(*ssa.Global); ok {
			return g.Name()
		}
	}
	return "?"
}

// ruleGMapFromUTXOs: field mapping UTXO -> Input.
func ruleGMapFromUTXOs(c *Ctx) {
	fn := c.P.Func("", "*Tx", "FromUTXOs")
	if fn == nil {
		c.Undecided("G-map", "Tx.FromUTXOs", token.NoPos, "not found")
		return
	}
	w := newWEval(c.P, fn)
	var inputAlloc *ssa.Alloc
	for _, b := range fn.Blocks {
		for _, ins := range b.Instrs {
			if al, ok := ins.(*ssa.Alloc); ok && al.Heap && namedOf(al.Type()) == "Input" {
				if inputAlloc != nil {
					c.Fail("G-map", "Tx.FromUTXOs/one-input-per-utxo", al.Pos(), "more than one Input allocated per iteration")
					return
				}
				inputAlloc = al
			}
		}
	}
	if inputAlloc == nil {
		c.Undecided("G-map", "Tx.FromUTXOs", fn.Pos(), "no Input allocation found")
		return
	}
	var header *ssa.BasicBlock
	for x := inputAlloc.Block(); x != nil; x = x.Idom() {
		if isLoopHeader(x) {
			header = x
			break
		}
	}
	c.Check(header != nil, "G-map", "Tx.FromUTXOs/fresh-per-iteration", inputAlloc.Pos(), "a new Input is allocated inside the range loop", "the Input is allocated outside the loop: all added inputs would be one object")
	if header == nil {
		return
	}
	// range order: index phi starts at -1 and is incremented by one, the element is utxos[index]
	got := map[string]string{}
	var calls []string
	for _, b := range fn.Blocks {
		for _, ins := range b.Instrs {
			switch x := ins.(type) {
			case *ssa.Store:
				if fa, ok := x.Addr.(*ssa.FieldAddr); ok && fa.X == ssa.Value(inputAlloc) {
					got[fieldName(fa.X.Type(), fa.Field)] = w.term(x.Val)
				}
			case *ssa.Call:
				if bi, ok := x.Call.Value.(*ssa.Builtin); ok && bi.Name() == "append" {
					// the append written out in place: tx.Inputs = append(tx.Inputs, input)
					vals := appendedValues(x)
					if appendTargetField(x) == "Inputs" && len(vals) == 1 && vals[0] == ssa.Value(inputAlloc) && w.term(x.Call.Args[0]) == "p0.Inputs" {
						calls = append(calls, "tx.addInput(input)")
					}
				}
				if sc := x.Call.StaticCallee(); sc != nil && len(x.Call.Args) >= 2 {
					if x.Call.Args[0] == ssa.Value(inputAlloc) {
						calls = append(calls, sc.Name()+"("+w.term(x.Call.Args[1])+")")
					}
					if x.Call.Args[1] == ssa.Value(inputAlloc) && x.Call.Args[0] == ssa.Value(fn.Params[0]) {
						calls = append(calls, "tx."+sc.Name()+"(input)")
					}
				}
			}
		}
	}
	elem := "p1[i]"
	want := map[string]string{
		"PreviousTxOutIndex": elem + ".Vout",
		"PreviousTxSatoshis": elem + ".Satoshis",
		"PreviousTxScript":   elem + ".LockingScript",
		"SequenceNumber":     "4294967295",
	}
	var gk []string
	for k, v := range got {
		gk = append(gk, k+"="+v)
	}
	sort.Strings(gk)
	for f, wv := range want {
		c.Check(got[f] == wv, "G-map", "Tx.FromUTXOs/"+f, fn.Pos(), f+" = "+wv, fmt.Sprintf("the new input's %s is %q, the UTXO's field %s is required", f, got[f], wv))
	}
	// the txid: through PreviousTxIDAdd (validates, then stores), or stored directly into the literal when
	// the append is dominated by IsValidTxID(utxo.TxID) having held
	directTxID := false
	if v, ok := got["previousTxID"]; ok && v == elem+".TxID" {
		for _, b := range fn.Blocks {
			for _, ins := range b.Instrs {
				call, isC := ins.(*ssa.Call)
				if !isC {
					continue
				}
				if bi, isB := call.Call.Value.(*ssa.Builtin); !isB || bi.Name() != "append" || appendTargetField(call) != "Inputs" {
					continue
				}
				for _, dc := range dominatingConds(b) {
					if vc, isCall := dc.cond.(*ssa.Call); isCall && dc.truth && vc.Call.StaticCallee() != nil && vc.Call.StaticCallee().Name() == "IsValidTxID" && w.term(vc.Call.Args[0]) == elem+".TxID" {
						directTxID = true
					}
				}
			}
		}
	}
	for f := range got {
		if _, ok := want[f]; !ok && !(f == "previousTxID" && directTxID) {
			c.Fail("G-map", "Tx.FromUTXOs/extra/"+f, fn.Pos(), "the new input's "+f+" is set to "+got[f]+", which the funding contract does not specify (for the txid: without the validity test)")
		}
	}
	seq := strings.Join(calls, "; ")
	okSeq := seq == "PreviousTxIDAdd("+elem+".TxID); tx.addInput(input)" || (directTxID && seq == "tx.addInput(input)")
	c.Check(okSeq, "G-map", "Tx.FromUTXOs/txid-then-append", fn.Pos(), "txid validated and stored, then the input appended: "+seq,
		"FromUTXOs no longer validates/stores the UTXO's txid and then appends the input: "+seq)
	// helpers: PreviousTxIDAdd stores its argument after the validity test; addInput appends to tx.Inputs
	if h := c.P.Func("", "*Input", "PreviousTxIDAdd"); h != nil {
		ok := false
		for _, b := range h.Blocks {
			for _, ins := range b.Instrs {
				if st, isSt := ins.(*ssa.Store); isSt {
					if fa, isFa := st.Addr.(*ssa.FieldAddr); isFa && fieldName(fa.X.Type(), fa.Field) == "previousTxID" && st.Val == ssa.Value(h.Params[1]) {
						// dominated by IsValidTxID(param) true
						for _, dc := range dominatingConds(b) {
							if call, isCall := dc.cond.(*ssa.Call); isCall && dc.truth {
								if sc := call.Call.StaticCallee(); sc != nil && sc.Name() == "IsValidTxID" && call.Call.Args[0] == ssa.Value(h.Params[1]) {
									ok = true
								}
							}
						}
					}
				}
			}
		}
		c.Check(ok, "G-map", "Input.PreviousTxIDAdd", h.Pos(), "stores exactly the given txid after IsValidTxID", "PreviousTxIDAdd does not store the given txid under the validity test")
	}
	if h := c.P.Func("", "*Tx", "addInput"); h != nil {
		ev := ""
		for _, b := range h.Blocks {
			for _, ins := range b.Instrs {
				if call, ok := ins.(*ssa.Call); ok {
					if bi, ok := call.Call.Value.(*ssa.Builtin); ok && bi.Name() == "append" {
						vals := appendedValues(call)
						if appendTargetField(call) == "Inputs" && len(vals) == 1 && vals[0] == ssa.Value(h.Params[1]) && w2term(c, h, call.Call.Args[0]) == "p0.Inputs" {
							ev = "append"
						}
					}
				}
			}
		}
		c.Check(ev == "append" && len(h.Blocks) == 1, "G-map", "Tx.addInput", h.Pos(), "tx.Inputs = append(tx.Inputs, input)", "addInput does not append the given input at the end of tx.Inputs")
	}
}

func w2term(c *Ctx, fn *ssa.Function, v ssa.Value) string {
	return newWEval(c.P, fn).term(v)
}

// ruleGDeficit: estimateDeficit returns 0 when inputs exceed outputs + estimated fee and
// outputs + fee - inputs otherwise (so the unsigned subtraction cannot wrap).
func ruleGDeficit(c *Ctx) {
	fn := c.P.Func("", "*Tx", "estimateDeficit")
	if fn == nil {
		c.Undecided("G-lin", "Tx.estimateDeficit", token.NoPos, "not found")
		return
	}
	paths, err := feasiblePaths(fn, 2000)
	if err != nil {
		c.Undecided("G-lin", "Tx.estimateDeficit", fn.Pos(), err.Error())
		return
	}
	rename := func(s string) string {
		switch s {
		case "(*bt.Tx).TotalInputSatoshis(p0)":
			return "IN"
		case "(*bt.Tx).TotalOutputSatoshis(p0)":
			return "OUT"
		case "(*bt.Tx).EstimateFeesPaid(p0, p1)#0.TotalFeePaid":
			return "FEE"
		}
		return s
	}
	got := map[string]bool{}
	for _, d := range paths {
		if returnDesc(d) != "return nil" {
			continue
		}
		var cs []string
		for _, pc := range d.Conds {
			if s, ok := cmpNorm(pc.Cond, pc.Truth, rename); ok && !strings.Contains(s, "nil") {
				cs = append(cs, s)
			}
		}
		sort.Strings(cs)
		got[strings.Join(cs, " && ")+" => "+linOf(d.Env.Term(d.Ret.Results[0]), rename).String()] = true
	}
	// each piece of the partition returns the right value: 0 where D = OUT+FEE-IN <= 0 is implied,
	// D where D >= 0 is implied (either strictness of the test is the same function)
	accept := setOf(
		"-FEE +IN -OUT -1 >= 0 => 0", "-FEE +IN -OUT >= 0 => 0",
		"FEE -IN +OUT >= 0 => FEE -IN +OUT", "FEE -IN +OUT -1 >= 0 => FEE -IN +OUT")
	want := setOf("-FEE +IN -OUT -1 >= 0 => 0", "FEE -IN +OUT >= 0 => FEE -IN +OUT")
	same := len(got) == 2
	for k := range got {
		if !accept[k] {
			same = false
		}
	}
	c.Check(same, "G-lin", "Tx.estimateDeficit", fn.Pos(), "deficit = 0 when IN > OUT+FEE, else OUT+FEE-IN (non-negative under its guard): "+strings.Join(keysSorted(got), " | "),
		fmt.Sprintf("estimateDeficit's result changed: {%s}, specified {%s}", strings.Join(keysSorted(got), " | "), strings.Join(keysSorted(want), " | ")))
}

// boolResultMeansZero: on every success path of fn (estimateDeficit) the boolean result #k is a constant, true
// only together with result #0 == 0 and false only under a condition that makes result #0 at least 1.
func boolResultMeansZero(fn *ssa.Function, k int) bool {
	if fn == nil {
		return false
	}
	paths, err := feasiblePaths(fn, 2000)
	if err != nil {
		return false
	}
	n := 0
	for _, d := range paths {
		if returnDesc(d) != "return nil" {
			continue
		}
		if d.Ret == nil || k >= len(d.Ret.Results) {
			return false
		}
		n++
		bt := d.Env.Term(d.Ret.Results[k])
		if bt.K != "const" || bt.C == nil || bt.C.Kind() != constant.Bool {
			return false
		}
		r := linOf(d.Env.Term(d.Ret.Results[0]), nil)
		if constant.BoolVal(bt.C) {
			if !r.isConst() || r.Const.Sign() != 0 {
				return false
			}
			continue
		}
		// false: some condition of the path is  r - 1 >= 0
		want := newTLin()
		want.Const.SetInt64(-1)
		want = want.add(r, 1)
		found := false
		for _, pc := range d.Conds {
			if s, ok := cmpNorm(pc.Cond, pc.Truth, nil); ok && s == want.String()+" >= 0" {
				found = true
			}
		}
		if !found {
			return false
		}
	}
	return n > 0
}
