package main

// C04 rules: the library's signing path and the verifier use the same digest, flag and data.
//   S-flag     unlocker.Simple: one flag value goes to the digest and into the unlocking script; the
//              input signed is params.InputIdx; key and signature come from the same private key
//   W-unlock   NewP2PKHUnlockingScript = push(sig . byte(flag)) push(pubkey)
//   S-fill     FillInput defaults to ALL|FORKID and installs the script at params.InputIdx;
//              FillAllInputs signs every input in order with ALL|FORKID
//   S-digest   preimages are built only by CalcInputSignatureHash (through sigStrat); signer and
//              verifier both call it; sigStrat picks the algorithm by the FORKID bit
//   S-apply    the interpreter records the spent output's script and value on the checked input
//   T-shf      hash type constants

import (
	"fmt"
	"go/constant"
	"go/token"
	"sort"
	"strings"

	"golang.org/x/tools/go/ssa"
)

type callInfo struct {
	name string
	args []string
	call *ssa.Call
}

func callsOf(fn *ssa.Function, env *TermEnv) []callInfo {
	var out []callInfo
	for _, b := range fn.Blocks {
		for _, ins := range b.Instrs {
			call, ok := ins.(*ssa.Call)
			if !ok {
				continue
			}
			name := call.Call.Value.Name()
			if call.Call.IsInvoke() {
				name = "invoke:" + call.Call.Method.Name()
			} else if sc := call.Call.StaticCallee(); sc != nil {
				name = sc.Name()
			}
			var as []string
			for _, a := range call.Call.Args {
				as = append(as, canonTerm(env.Term(a)))
			}
			out = append(out, callInfo{name, as, call})
		}
	}
	return out
}

func findCall(cs []callInfo, name string) (callInfo, int) {
	var r callInfo
	n := 0
	for _, c := range cs {
		if c.name == name {
			r = c
			n++
		}
	}
	return r, n
}

// fieldStores: canonical "addr := value" strings of all stores in fn.
func storeStrings(fn *ssa.Function, env *TermEnv) []string {
	var out []string
	for _, b := range fn.Blocks {
		for _, ins := range b.Instrs {
			if st, ok := ins.(*ssa.Store); ok {
				out = append(out, canonTerm(env.Term(st.Addr))+" := "+canonTerm(env.Term(st.Val)))
			}
		}
	}
	return out
}

func hasString(ss []string, s string) bool {
	for _, x := range ss {
		if x == s {
			return true
		}
	}
	return false
}

func ruleSFlag(c *Ctx) {
	allForkID := pkgConst(c, "sighash", "AllForkID")
	// ---- unlocker.Simple.UnlockingScript
	if fn := c.P.Func("unlocker", "*Simple", "UnlockingScript"); fn != nil {
		env := newTermEnv()
		cs := callsOf(fn, env)
		st := storeStrings(fn, env)
		digest, nd := findCall(cs, "CalcInputSignatureHash")
		build, nb := findCall(cs, "NewP2PKHUnlockingScript")
		sign, ns := findCall(cs, "Sign")
		if nd != 1 || nb != 1 || ns != 1 {
			c.Fail("S-flag", "unlocker.Simple/shape", fn.Pos(), fmt.Sprintf("expected one digest, one Sign and one script-building call, found %d/%d/%d", nd, ns, nb))
		} else {
			// params are spilled to a local; the flag is the local's field, defaulted under == 0
			flagTerm := digest.args[2]
			okDefault := false
			var flagStores []string
			for _, s := range st {
				if strings.HasPrefix(s, "&"+flagTerm+" := ") {
					flagStores = append(flagStores, s)
				}
			}
			if len(flagStores) == 1 && flagStores[0] == fmt.Sprintf("&%s := %d", flagTerm, allForkID) {
				// the defaulting store is guarded by flag == 0
				for _, b := range fn.Blocks {
					for _, ins := range b.Instrs {
						if s, ok := ins.(*ssa.Store); ok && canonTerm(env.Term(s.Addr)) == "&"+flagTerm {
							for _, dc := range dominatingConds(b) {
								if dc.truth && canonTerm(env.Term(dc.cond)) == "("+flagTerm+" == 0)" {
									okDefault = true
								}
							}
						}
					}
				}
			}
			c.Check(okDefault, "S-flag", "unlocker.Simple/default", fn.Pos(), "hash type 0 defaults to ALL|FORKID, nothing else rewrites it", "the hash type is rewritten other than by the documented default (0 -> ALL|FORKID): "+strings.Join(flagStores, "; "))
			c.Check(build.args[2] == flagTerm && strings.HasSuffix(flagTerm, ".SigHashFlags"), "S-flag", "unlocker.Simple/same-flag", build.call.Pos(), "the hash type hashed is the hash type appended to the signature ("+flagTerm+")",
				"the digest is computed for hash type "+flagTerm+" but the unlocking script carries "+build.args[2]+": the interpreter recomputes a different digest")
			idx := digest.args[1]
			c.Check(strings.HasSuffix(idx, ".InputIdx") && digest.args[0] == "p2", "S-flag", "unlocker.Simple/input", digest.call.Pos(), "the digest is taken on the given transaction at params.InputIdx", "the digest is not computed on the caller's transaction at params.InputIdx ("+digest.args[0]+", "+idx+")")
			// the script type test looks at the same input
			okType := false
			for _, ci := range cs {
				if ci.name == "ScriptType" && ci.args[0] == "p2.Inputs["+idx+"].PreviousTxScript" {
					okType = true
				}
			}
			c.Check(okType, "S-flag", "unlocker.Simple/script-kind-of-same-input", fn.Pos(), "the script kind tested is that of the input being signed", "the script-kind test does not look at the input being signed")
			// Sign(l.PrivateKey, digest#0); key = SerialiseCompressed(PubKey(l.PrivateKey)); sig = Serialise(sign#0)
			okSign := sign.args[0] == "p0.PrivateKey" && strings.HasSuffix(sign.args[1], "#0") && strings.Contains(sign.args[1], "CalcInputSignatureHash")
			okKey := strings.Contains(build.args[0], "SerialiseCompressed(") && strings.Contains(build.args[0], "PubKey(p0.PrivateKey)")
			okSig := strings.Contains(build.args[1], ".Serialise(") && strings.Contains(build.args[1], ".Sign(p0.PrivateKey,") && strings.HasSuffix(build.args[1], "#0)")
			c.Check(okSign && okKey && okSig, "S-flag", "unlocker.Simple/key-and-signature", build.call.Pos(), "signs the digest with l.PrivateKey; pushes that key's compressed public key and the serialised signature",
				fmt.Sprintf("signature, key or digest do not come from the same private key / digest: sign(%s, %s) key %s sig %s", sign.args[0], shorten(sign.args[1], 60), shorten(build.args[0], 80), shorten(build.args[1], 80)))
		}
	} else {
		c.Undecided("S-flag", "unlocker.Simple", token.NoPos, "not found")
	}
	// ---- W-unlock
	if fn := c.P.Func("bscript", "", "NewP2PKHUnlockingScript"); fn != nil {
		env := newTermEnv()
		cs := callsOf(fn, env)
		push, np := findCall(cs, "AppendPushDataArray")
		// the elements handed to AppendPushDataArray: a literal [][]byte{e0, e1}
		var elems []ssa.Value
		if np == 1 && len(push.call.Call.Args) == 2 {
			if sl, ok := push.call.Call.Args[1].(*ssa.Slice); ok {
				if al, ok := sl.X.(*ssa.Alloc); ok && al.Referrers() != nil {
					byIdx := map[int64]ssa.Value{}
					for _, r := range *al.Referrers() {
						if ia, ok := r.(*ssa.IndexAddr); ok && ia.Referrers() != nil {
							if k, ok := constInt(ia.Index); ok {
								for _, rr := range *ia.Referrers() {
									if st, ok := rr.(*ssa.Store); ok && st.Addr == ssa.Value(ia) {
										byIdx[k.Int64()] = st.Val
									}
								}
							}
						}
					}
					for i := int64(0); i < int64(len(byIdx)); i++ {
						elems = append(elems, byIdx[i])
					}
				}
			}
		}
		if np != 1 || len(elems) == 0 {
			c.Undecided("W-unlock", "NewP2PKHUnlockingScript", fn.Pos(), "construction idiom not recognised (expected a literal [][]byte handed to one AppendPushDataArray call); the layout cannot be read off")
			return
		}
		w := newWEval(c.P, fn)
		okN := len(elems) == 2
		var l0 *Lay
		okSig, why := false, ""
		okKey := false
		if okN {
			l0 = w.eval(elems[0])
			okSig, why, _ = layEqual(l0, seqOf(raw("p1"), le(1, "p2")), nil)
			okKey = elems[1] == ssa.Value(fn.Params[0])
		}
		okPush := strings.HasPrefix(push.args[0], "alloc#")
		c.Check(okN && okSig && okKey && okPush, "W-unlock", "NewP2PKHUnlockingScript", fn.Pos(), "script = push(sig . byte(flag)) push(pubKey) on a new script",
			fmt.Sprintf("the unlocking script is no longer push(sig . flag byte) push(pubkey): %d elements, first element %v (%s), second element is the public key: %v", len(elems), l0, why, okKey))
		// the returned script is the one pushed to
		okRet := false
		for _, b := range fn.Blocks {
			if r, ok := b.Instrs[len(b.Instrs)-1].(*ssa.Return); ok && np == 1 {
				okRet = canonTerm(env.Term(r.Results[0])) == push.args[0]
			}
		}
		c.Check(okRet, "W-unlock", "NewP2PKHUnlockingScript/result", fn.Pos(), "returns the script it pushed to", "NewP2PKHUnlockingScript does not return the script it built")
	} else {
		c.Undecided("W-unlock", "NewP2PKHUnlockingScript", token.NoPos, "not found")
	}
	// ---- S-fill
	if fn := c.P.Func("", "*Tx", "FillInput"); fn != nil {
		env := newTermEnv()
		cs := callsOf(fn, env)
		st := storeStrings(fn, env)
		u, nu := findCall(cs, "invoke:UnlockingScript")
		ins, ni := findCall(cs, "InsertInputUnlockingScript")
		okDefault := hasString(st, fmt.Sprintf("&alloc#0.SigHashFlags := %d", allForkID)) && storeGuardedBy(fn, env, "&alloc#0.SigHashFlags", "(alloc#0.SigHashFlags == 0)")
		ok := nu == 1 && ni == 1 && okDefault && u.args[0] == "p1" && u.args[1] == "p0" && u.args[2] == "*alloc#0" &&
			ins.args[0] == "p0" && ins.args[1] == "alloc#0.InputIdx" && strings.HasSuffix(ins.args[2], "#0") && strings.Contains(ins.args[2], "invoke:UnlockingScript")
		c.Check(ok, "S-fill", "Tx.FillInput", fn.Pos(), "defaults the hash type to ALL|FORKID, asks the unlocker with the caller's tx and params, installs its script at params.InputIdx",
			"FillInput no longer forwards (tx, params) to the unlocker and installs the result at params.InputIdx with the ALL|FORKID default")
	}
	if fn := c.P.Func("", "*Tx", "InsertInputUnlockingScript"); fn != nil {
		st := storeStrings(fn, newTermEnv())
		c.Check(hasString(st, "&p0.Inputs[p1].UnlockingScript := p2"), "S-fill", "Tx.InsertInputUnlockingScript", fn.Pos(), "stores the script on Inputs[index]", "InsertInputUnlockingScript does not store the given script on the given input")
	}
	if fn := c.P.Func("", "*Tx", "FillAllInputs"); fn != nil {
		env := newTermEnv()
		cs := callsOf(fn, env)
		st := storeStrings(fn, env)
		f, nf := findCall(cs, "FillInput")
		g, ng := findCall(cs, "invoke:Unlocker")
		okIdx := false
		for _, s := range st {
			if strings.HasPrefix(s, "&alloc#0.InputIdx := uint32((1 + phi@") {
				okIdx = true // the range index
			}
		}
		ok := nf == 1 && ng == 1 && okIdx && hasString(st, fmt.Sprintf("&alloc#0.SigHashFlags := %d", allForkID)) &&
			f.args[0] == "p0" && strings.Contains(f.args[2], "invoke:Unlocker") && f.args[3] == "*alloc#0" && strings.Contains(g.args[1], "].PreviousTxScript")
		over, _, isRange := rangeLoopOver(c.P, fn)
		c.Check(ok && isRange && over == "p0.Inputs", "S-fill", "Tx.FillAllInputs", fn.Pos(), "for every input in order: unlocker for its spent script, FillInput(index, ALL|FORKID)", "FillAllInputs no longer signs every input at its own index with ALL|FORKID")
	}
}

// rangeLoopOver: the function has one range loop; returns the ranged slice term.
func rangeLoopOver(p *Prog, fn *ssa.Function) (string, *ssa.BasicBlock, bool) {
	w := newWEval(p, fn)
	for _, b := range fn.Blocks {
		if !isLoopHeader(b) {
			continue
		}
		for _, ins := range b.Instrs {
			ph, ok := ins.(*ssa.Phi)
			if !ok {
				break
			}
			if phiStartsAt(ph, -1) {
				if iff, ok := b.Instrs[len(b.Instrs)-1].(*ssa.If); ok {
					if bo, ok := iff.Cond.(*ssa.BinOp); ok && bo.Op == token.LSS {
						if ln, ok := bo.Y.(*ssa.Call); ok {
							return w.term(ln.Call.Args[0]), b, true
						}
					}
				}
			}
		}
	}
	return "", nil, false
}

func ruleSDigest(c *Ctx) {
	// who calls the preimage builders
	callers := map[string]map[string]bool{}
	addrTaken := map[string]map[string]bool{}
	for _, pk := range c.P.ScopePkgs() {
		for _, fn := range pkgFunctions(c.P, pk.PkgPath) {
			for _, b := range fn.Blocks {
				for _, ins := range b.Instrs {
					var ops [16]*ssa.Value
					for _, op := range ins.Operands(ops[:0]) {
						if op == nil || *op == nil {
							continue
						}
						var target *ssa.Function
						switch v := (*op).(type) {
						case *ssa.Function:
							target = v
						case *ssa.MakeClosure:
							target, _ = v.Fn.(*ssa.Function)
						}
						if target == nil {
							continue
						}
						n := target.Name()
						if strings.HasSuffix(n, "$bound") {
							n = strings.TrimSuffix(n, "$bound")
						}
						if n != "CalcInputPreimage" && n != "CalcInputPreimageLegacy" && n != "CalcInputSignatureHash" {
							continue
						}
						m := callers
						if call, ok := ins.(ssa.CallInstruction); !ok || call.Common().Value != *op {
							m = addrTaken
						}
						if m[n] == nil {
							m[n] = map[string]bool{}
						}
						for _, af := range attributedTo(c.P, fn) {
							m[n][funcName(af)] = true
						}
					}
				}
			}
		}
	}
	for _, n := range []string{"CalcInputPreimage", "CalcInputPreimageLegacy"} {
		direct := keysSorted(callers[n])
		taken := keysSorted(addrTaken[n])
		okDirect := len(direct) == 0 || (len(direct) == 1 && direct[0] == "(*bt.Tx).CalcInputSignatureHash")
		okTaken := len(taken) == 0 || (len(taken) == 1 && taken[0] == "(*bt.Tx).sigStrat")
		c.Check(okDirect && okTaken && len(direct)+len(taken) >= 1, "S-digest", "who/"+n, token.NoPos, n+" is used only by CalcInputSignatureHash (called there, or as the function value chosen by sigStrat)",
			fmt.Sprintf("%s is called from %v and taken as a value in %v: a digest may be computed outside CalcInputSignatureHash", n, direct, taken))
	}
	want := []string{"(*unlocker.Simple).UnlockingScript", "bscript/interpreter.opcodeCheckMultiSig", "bscript/interpreter.opcodeCheckSig"}
	got := keysSorted(callers["CalcInputSignatureHash"])
	missing := []string{}
	for _, w := range want {
		if !callers["CalcInputSignatureHash"][w] {
			missing = append(missing, w)
		}
	}
	c.Check(len(missing) == 0, "S-digest", "who/CalcInputSignatureHash", token.NoPos, "signer and both verifying opcodes obtain the digest from CalcInputSignatureHash: "+strings.Join(got, ", "), "these no longer obtain the digest from CalcInputSignatureHash: "+strings.Join(missing, ", "))
	if sh := c.P.Func("", "*Tx", "CalcInputSignatureHash"); sh != nil {
		digestRule(c, sh)
	}
}

func ruleSApply(c *Ctx) {
	fn := c.P.Func("bscript/interpreter", "*thread", "apply")
	if fn == nil {
		c.Undecided("S-apply", "thread.apply", token.NoPos, "not found")
		return
	}
	env := newTermEnv()
	st := storeStrings(fn, env)
	in := "(*bt.Tx).InputIdx(p0.tx, p0.inputIdx)"
	ok1 := hasString(st, "&"+in+".PreviousTxScript := p0.prevOutput.LockingScript")
	ok2 := hasString(st, "&"+in+".PreviousTxSatoshis := p0.prevOutput.Satoshis")
	ok3 := hasString(st, "&p0.tx := p1.tx") && hasString(st, "&p0.inputIdx := p1.inputIdx") && hasString(st, "&p0.prevOutput := p1.previousTxOut")
	// the recording does not depend on what the input already carries
	for _, b := range fn.Blocks {
		for _, ins := range b.Instrs {
			if s, ok := ins.(*ssa.Store); ok {
				if fa, ok := s.Addr.(*ssa.FieldAddr); ok {
					fname := fieldName(fa.X.Type(), fa.Field)
					if fname == "PreviousTxSatoshis" || fname == "PreviousTxScript" {
						reported := false
						for _, dc := range dominatingConds(b) {
							t := atomName(env.Term(dc.cond))
							if strings.Contains(t, ".PreviousTxSatoshis") || strings.Contains(t, ".PreviousTxScript") {
								reported = true
								c.Fail("S-apply", "thread.apply/unconditional/"+fname, s.Pos(), "the spent output's "+fname+" is recorded only under a condition on what the input already carries ("+shorten(t, 100)+"): a stale value on the transaction object is hashed instead of the real previous output")
							}
						}
						// the same through a short-circuit condition (in != nil && (a || b)): a test of what the input
						// carries from which the recording can be reached and can be skipped
						for _, tb := range fn.Blocks {
							iff, isIf := tb.Instrs[len(tb.Instrs)-1].(*ssa.If)
							if !isIf || reported {
								continue
							}
							t := atomName(env.Term(iff.Cond))
							if !(strings.Contains(t, ".PreviousTxSatoshis") || strings.Contains(t, ".PreviousTxScript")) {
								continue
							}
							if blockReaches(tb, b, nil) && exitReachableAvoiding(tb, b) {
								reported = true
								c.Fail("S-apply", "thread.apply/unconditional/"+fname, s.Pos(), "the spent output's "+fname+" is recorded or not depending on what the input already carries ("+shorten(t, 100)+"): a stale value on the transaction object is hashed instead of the real previous output")
							}
						}
					}
				}
			}
		}
	}
	c.Check(ok1 && ok2 && ok3, "S-apply", "thread.apply/spent-output", fn.Pos(), "the checked input receives the spent output's script and value from the options given to Execute", "thread.apply no longer records the spent output's locking script and value on the checked input")
	// no other store to PreviousTxScript / PreviousTxSatoshis in the interpreter package
	n := 0
	for _, f := range pkgFunctions(c.P, interpPkg) {
		for _, b := range f.Blocks {
			for _, ins := range b.Instrs {
				if s, ok := ins.(*ssa.Store); ok {
					if fa, ok := s.Addr.(*ssa.FieldAddr); ok {
						fname := fieldName(fa.X.Type(), fa.Field)
						if fname == "PreviousTxSatoshis" || fname == "PreviousTxScript" {
							okSite := true
							for _, af := range attributedTo(c.P, f) {
								n++
								if !(af.Name() == "apply" || (fname == "PreviousTxScript" && (af.Name() == "opcodeCheckSig" || af.Name() == "opcodeCheckMultiSig") &&
									strings.Contains(atomName(newTermEnv().Term(s.Addr)), ".Clone("))) {
									okSite = false
								}
							}
							c.Check(okSite, "S-apply", "spent-output-store/"+funcName(f)+"/"+fname, s.Pos(), "written in apply (real tx) or on the digest clone", funcName(f)+" writes "+fname+" of an input")
						}
					}
				}
			}
		}
	}
	c.MinInstances("S-apply", n, 4)
}

func ruleTShf(c *Ctx) {
	want := map[string]int64{"Old": 0, "All": 1, "None": 2, "Single": 3, "AnyOneCanPay": 0x80, "ForkID": 0x40, "AllForkID": 0x41, "NoneForkID": 0x42, "SingleForkID": 0x43, "AnyOneCanPayForkID": 0xC0, "Mask": 0x1f}
	var names []string
	for n := range want {
		names = append(names, n)
	}
	sort.Strings(names)
	for _, n := range names {
		got := pkgConst(c, "sighash", n)
		c.Check(got == want[n], "T-shf", "sighash."+n, token.NoPos, fmt.Sprintf("%s = %#x", n, want[n]), fmt.Sprintf("sighash.%s is %#x, the protocol value is %#x", n, got, want[n]))
	}
	// Has / HasWithMask
	for _, h := range []struct{ name, want string }{{"Has", "((p0 & p1) == p1)"}, {"HasWithMask", "((31 & p0) == p1)"}} {
		fn := c.P.Func("sighash", "Flag", h.name)
		if fn == nil {
			c.Undecided("T-shf", "Flag."+h.name, token.NoPos, "not found")
			continue
		}
		got := ""
		if len(fn.Blocks) == 1 {
			if r, ok := fn.Blocks[0].Instrs[len(fn.Blocks[0].Instrs)-1].(*ssa.Return); ok {
				got = canonTerm(newTermEnv().Term(r.Results[0]))
			}
		}
		c.Check(got == h.want, "T-shf", "Flag."+h.name, fn.Pos(), h.name+" = "+h.want, fmt.Sprintf("sighash.Flag.%s computes %s, expected %s", h.name, got, h.want))
	}
	_ = constant.MakeInt64
}

// storeGuardedBy: every store to the address (by its canonical term) sits under the given condition taken true.
func storeGuardedBy(fn *ssa.Function, env *TermEnv, addr, cond string) bool {
	n := 0
	for _, b := range fn.Blocks {
		for _, ins := range b.Instrs {
			s, ok := ins.(*ssa.Store)
			if !ok || canonTerm(env.Term(s.Addr)) != addr {
				continue
			}
			n++
			guarded := false
			for _, dc := range dominatingConds(b) {
				if dc.truth && canonTerm(env.Term(dc.cond)) == cond {
					guarded = true
				}
			}
			if !guarded {
				return false
			}
		}
	}
	return n > 0
}

// blockReaches: to is reachable from from (through at least one edge), not passing through avoid.
func blockReaches(from, to, avoid *ssa.BasicBlock) bool {
	seen := map[*ssa.BasicBlock]bool{}
	var walk func(b *ssa.BasicBlock) bool
	walk = func(b *ssa.BasicBlock) bool {
		for _, s := range b.Succs {
			if s == avoid || seen[s] {
				continue
			}
			if s == to {
				return true
			}
			seen[s] = true
			if walk(s) {
				return true
			}
		}
		return false
	}
	return walk(from)
}

// exitReachableAvoiding: some return of the function is reachable from from without passing through avoid.
func exitReachableAvoiding(from, avoid *ssa.BasicBlock) bool {
	seen := map[*ssa.BasicBlock]bool{}
	var walk func(b *ssa.BasicBlock) bool
	walk = func(b *ssa.BasicBlock) bool {
		if _, ok := b.Instrs[len(b.Instrs)-1].(*ssa.Return); ok {
			return true
		}
		for _, s := range b.Succs {
			if s == avoid || seen[s] {
				continue
			}
			seen[s] = true
			if walk(s) {
				return true
			}
		}
		return false
	}
	return walk(from)
}
