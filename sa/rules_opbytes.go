package main

// W-opb: the bytes an opcode parsed by the interpreter is written back as (ParsedOpcode.bytes, behind
// ParsedScript.Unparse and so behind the script code every signature check hashes). For every class of
// the opcode's length field - 1 (no data), n > 1 (direct push), -1 / -2 / -4 (OP_PUSHDATA1/2/4) - each
// success path taken for that class must return  opcode byte · little-endian length of the data in
// 0 / 1 / 2 / 4 bytes · the data.

import (
	"fmt"
	"go/token"
	"math/big"
	"sort"
	"strings"

	"golang.org/x/tools/go/ssa"
)

func ruleWOpBytes(c *Ctx) {
	fn := c.P.Func("bscript/interpreter", "*ParsedOpcode", "bytes")
	if fn == nil {
		c.Undecided("W-opb", "ParsedOpcode.bytes", token.NoPos, "not found")
		return
	}
	paths, err := feasiblePaths(fn, 200000)
	if err != nil {
		c.Undecided("W-opb", "ParsedOpcode.bytes", fn.Pos(), "cannot enumerate paths: "+err.Error())
		return
	}
	bases := map[string]*T{}
	for _, p := range paths {
		for _, cd := range p.Conds {
			baseTerms(cd.Cond, bases)
		}
	}
	lenField := ""
	for k := range bases {
		if strings.HasSuffix(k, ".op.length") {
			lenField = k
		}
	}
	if lenField == "" {
		c.Undecided("W-opb", "ParsedOpcode.bytes", fn.Pos(), "no decision on the opcode's length field")
		return
	}
	head := "LE1(p0.op.val)"
	classes := []struct {
		v    int64
		want []string
		what string
	}{
		{-4, []string{head + " · LE4(len(p0.Data)) · Raw(p0.Data)"}, "OP_PUSHDATA4: opcode, 4-byte little-endian length, data"},
		{-2, []string{head + " · LE2(len(p0.Data)) · Raw(p0.Data)"}, "OP_PUSHDATA2: opcode, 2-byte little-endian length, data"},
		{-1, []string{head + " · LE1(len(p0.Data)) · Raw(p0.Data)"}, "OP_PUSHDATA1: opcode, 1-byte length, data"},
		{1, []string{head, head + " · Raw(p0.Data)"}, "no data: the opcode byte"},
		{2, []string{head + " · Raw(p0.Data)"}, "direct push: opcode, data"},
		{33, []string{head + " · Raw(p0.Data)"}, "direct push: opcode, data"},
		{76, []string{head + " · Raw(p0.Data)"}, "direct push: opcode, data"},
	}
	n := 0
	for _, cl := range classes {
		asg := map[string]*big.Int{lenField: big.NewInt(cl.v)}
		got := map[string]bool{}
		for _, p := range paths {
			if p.EndKind != "return" || p.Ret == nil || len(p.Ret.Results) != 2 {
				continue
			}
			if et := p.Env.Term(p.Ret.Results[1]); !(et.K == "const" && et.C == nil) {
				continue
			}
			consistent := true
			for _, cd := range p.Conds {
				bt := map[string]*T{}
				baseTerms(cd.Cond, bt)
				if len(bt) != 1 || bt[lenField] == nil {
					continue // a test of the data length: does not select the class
				}
				if v, ok := evalTerm(cd.Cond, asg); ok && (v.Sign() != 0) != cd.Truth {
					consistent = false
					break
				}
			}
			if !consistent {
				continue
			}
			w := newWEval(theProg, fn)
			w.pathPhi = map[*ssa.Phi]ssa.Value{}
			for ph, v := range p.Env.Phi {
				if !isLoopHeader(ph.Block()) {
					w.pathPhi[ph] = v
				}
			}
			w.pathBlocks = map[*ssa.BasicBlock]bool{}
			for _, b := range p.Blocks {
				w.pathBlocks[b] = true
			}
			got[leOfOwnWidth(seqOf(w.eval(p.Ret.Results[0])).String())] = true
		}
		var gs []string
		for g := range got {
			gs = append(gs, g)
		}
		sort.Strings(gs)
		ok := len(gs) > 0
		for _, g := range gs {
			found := false
			for _, wnt := range cl.want {
				if g == wnt {
					found = true
				}
			}
			ok = ok && found
		}
		n++
		c.Check(ok, "W-opb", fmt.Sprintf("ParsedOpcode.bytes/length=%d", cl.v), fn.Pos(), cl.what,
			fmt.Sprintf("an opcode whose length field is %d is written back as %v, expected %s (Parse reads %s): Unparse does not reproduce the script, so script codes and signature hashes differ", cl.v, gs, cl.want[0], cl.what))
	}
	c.MinInstances("W-opb", n, 7)
}

// leOfOwnWidth: the k low bytes of uintK(x) are the k low bytes of x.
func leOfOwnWidth(s string) string {
	for _, k := range []int{1, 2, 4, 8} {
		pre := fmt.Sprintf("LE%d(uint%d(", k, 8*k)
		for {
			i := strings.Index(s, pre)
			if i < 0 {
				break
			}
			// the matching parenthesis of uintK(
			depth, j := 0, i+len(pre)
			for ; j < len(s); j++ {
				if s[j] == '(' {
					depth++
				} else if s[j] == ')' {
					if depth == 0 {
						break
					}
					depth--
				}
			}
			if j >= len(s) {
				break
			}
			s = s[:i] + fmt.Sprintf("LE%d(", k) + s[i+len(pre):j] + s[j+1:]
		}
	}
	return s
}
