package main

// Layout comparison. Sequences are compared item by item; selections are compared
// semantically: for every feasible valuation of the atoms occurring in either side the
// selected alternatives must be equal layouts.

import (
	"fmt"
	"go/token"
	"math/big"
	"regexp"
	"sort"
	"strings"
	"sync"
)

func layAtoms(l *Lay, out map[string]bool) {
	if l == nil {
		return
	}
	for _, it := range l.Items {
		layAtoms(it, out)
	}
	for _, c := range l.Cases {
		for _, conj := range c.Conds {
			for _, lit := range conj {
				out[lit.Atom] = true
			}
		}
		layAtoms(c.L, out)
	}
}

var eqAtomRe = regexp.MustCompile(`^\((.+) (==|!=) (.+)\)$`)

// feasible: at most one (X == c) true per X; (X != c) is the negation of (X == c).
func feasible(val map[string]bool) bool {
	eqTrue := map[string]string{}
	for a, v := range val {
		m := eqAtomRe.FindStringSubmatch(a)
		if m == nil {
			continue
		}
		x, op, c := m[1], m[2], m[3]
		isEq := (op == "==") == v // the valuation says X == c
		if isEq {
			if prev, ok := eqTrue[x]; ok && prev != c {
				return false
			}
			eqTrue[x] = c
		}
	}
	// consistency between (X == c) and (X != c) atoms on the same pair
	for a, v := range val {
		m := eqAtomRe.FindStringSubmatch(a)
		if m == nil {
			continue
		}
		other := "(" + m[1] + " " + map[string]string{"==": "!=", "!=": "=="}[m[2]] + " " + m[3] + ")"
		if ov, ok := val[other]; ok && ov == v {
			return false
		}
		// X == c1 true forces X == c2 false, i.e. X != c2 true
		if c1, ok := eqTrue[m[1]]; ok && c1 != m[3] {
			isEq := (m[2] == "==") == v
			if isEq {
				return false
			}
		}
	}
	return true
}

func dnfHolds(d [][]condLit, val map[string]bool) bool {
	if len(d) == 0 {
		return true
	}
	for _, conj := range d {
		ok := true
		for _, lit := range conj {
			if val[lit.Atom] != lit.Truth {
				ok = false
				break
			}
		}
		if ok {
			return true
		}
	}
	return false
}

// resolve picks, under a valuation, the concrete (selection-free) layout.
func resolve(l *Lay, val map[string]bool) (*Lay, error) {
	switch l.K {
	case "seq":
		var items []*Lay
		for _, it := range l.Items {
			r, err := resolve(it, val)
			if err != nil {
				return nil, err
			}
			items = append(items, r)
		}
		return seqOf(items...), nil
	case "sel":
		var hit *Lay
		n := 0
		for _, c := range l.Cases {
			if dnfHolds(c.Conds, val) {
				n++
				if hit == nil {
					hit = c.L
				} else if hit.String() != c.L.String() {
					return nil, fmt.Errorf("two alternatives of a selection hold at once")
				}
			}
		}
		if hit == nil {
			return nil, fmt.Errorf("no alternative of a selection holds")
		}
		return resolve(hit, val)
	case "hash", "loop", "revl":
		r, err := resolve(l.Items[0], val)
		if err != nil {
			return nil, err
		}
		return &Lay{K: l.K, S: l.S, W: l.W, Items: []*Lay{r}}, nil
	}
	return l, nil
}

// layEqual compares got with want for every feasible valuation of their atoms.
func layEqual(got, want *Lay, extraFeasible func(map[string]bool) bool) (bool, string, int) {
	got, want = canonLay(got), canonLay(want)
	atoms := map[string]bool{}
	layAtoms(got, atoms)
	layAtoms(want, atoms)
	var names []string
	for a := range atoms {
		names = append(names, a)
	}
	sort.Strings(names)
	// atoms that are functions of one small integer parameter alone (masks of a flag byte, lookups in a
	// constant table keyed by it) are not independent: they take exactly the joint values the parameter's
	// values give them
	// atoms without any variable ("(-1 == -1)" once a constant argument is substituted) have their value
	fixed := map[string]bool{}
	for _, a := range names {
		if t := parseAtom(a, nil); t != nil {
			if v, ok := evalTerm(t, map[string]*big.Int{}); ok {
				fixed[a] = v.Sign() != 0
			}
		}
	}
	driver, driven, vectors := drivenAtoms(names)
	var free []string
	for _, a := range names {
		if !driven[a] {
			free = append(free, a)
		}
	}
	if len(free) > 14 {
		return false, fmt.Sprintf("too many condition atoms (%d)", len(free)), 0
	}
	_ = driver
	n := 0
	for _, vec := range vectors {
		for mask := 0; mask < 1<<len(free); mask++ {
			val := map[string]bool{}
			for a, v := range vec {
				val[a] = v
			}
			for i, a := range free {
				val[a] = mask&(1<<i) != 0
			}
			okFixed := true
			for a, v := range fixed {
				if val[a] != v {
					okFixed = false
				}
			}
			if !okFixed || !feasible(val) || (extraFeasible != nil && !extraFeasible(val)) {
				continue
			}
			n++
			g, err := resolve(got, val)
			if err != nil {
				return false, "code layout: " + err.Error() + " under " + valString(val), n
			}
			w, err := resolve(want, val)
			if err != nil {
				return false, "specification layout: " + err.Error() + " under " + valString(val), n
			}
			if g.String() != w.String() {
				return false, fmt.Sprintf("under %s the code serialises %s but the specification is %s", valString(val), firstDiff(g, w), ""), n
			}
		}
	}
	return true, "", n
}

// atomTerms: the term behind each condition atom the evaluators print (atoms are compared as strings).
var atomTerms sync.Map

func registerAtom(s string, t *T) {
	if t == nil {
		return
	}
	atomTerms.LoadOrStore(s, t)
	// the comparison's canonical spelling (see canonAtom) stands for the same test, possibly negated
	if k, flip := canonAtom(s); k != s {
		ct := t
		if flip {
			ct = &T{K: "un", Op: token.NOT, Args: []*T{t}, Typ: t.Typ}
		}
		atomTerms.LoadOrStore(k, ct)
	}
}

// drivenAtoms: among the atoms, those whose term depends on one integer parameter only, all on the same
// one, comparing it (masked, shifted, looked up) with constants below 256; and the distinct joint truth
// assignments they take as that parameter runs over 0..255. With no such atoms: one empty assignment.
func drivenAtoms(names []string) (string, map[string]bool, []map[string]bool) {
	byDriver := map[string][]string{}
	for _, a := range names {
		t := atomTermOf(a)
		if t == nil {
			continue
		}
		bt := map[string]*T{}
		baseTerms(t, bt)
		if len(bt) != 1 {
			continue
		}
		for k, b := range bt {
			if b.K != "param" || b.Typ == nil || !isIntType(b.Typ) {
				continue
			}
			cs := map[string]*big.Int{}
			collectConsts(t, cs)
			small := true
			for _, v := range cs {
				if v.Sign() < 0 || v.Cmp(big.NewInt(256)) >= 0 {
					small = false
				}
			}
			if _, ok := evalTerm(t, map[string]*big.Int{k: big.NewInt(0)}); ok && small && lowBitsOnly(t) {
				byDriver[k] = append(byDriver[k], a)
			}
		}
	}
	best := ""
	for k, as := range byDriver {
		if len(as) > len(byDriver[best]) || (len(as) == len(byDriver[best]) && k < best) {
			best = k
		}
	}
	if best == "" {
		return "", map[string]bool{}, []map[string]bool{{}}
	}
	driven := map[string]bool{}
	for _, a := range byDriver[best] {
		driven[a] = true
	}
	seen := map[string]bool{}
	var vectors []map[string]bool
	for v := int64(0); v < 256; v++ {
		vec := map[string]bool{}
		key := ""
		for _, a := range byDriver[best] {
			x, ok := evalTerm(atomTermOf(a), map[string]*big.Int{best: big.NewInt(v)})
			if !ok {
				continue
			}
			vec[a] = x.Sign() != 0
			if vec[a] {
				key += "1"
			} else {
				key += "0"
			}
		}
		if !seen[key] {
			seen[key] = true
			vectors = append(vectors, vec)
		}
	}
	return best, driven, vectors
}

func valString(val map[string]bool) string {
	var s []string
	for a, v := range val {
		if v {
			s = append(s, a)
		} else {
			s = append(s, "!"+a)
		}
	}
	sort.Strings(s)
	return "{" + strings.Join(s, ", ") + "}"
}

// firstDiff describes the first differing item of two resolved sequences.
func firstDiff(g, w *Lay) string {
	gi, wi := seqOf(g).Items, seqOf(w).Items
	for i := 0; i < len(gi) || i < len(wi); i++ {
		var a, b string
		if i < len(gi) {
			a = gi[i].String()
		} else {
			a = "<end>"
		}
		if i < len(wi) {
			b = wi[i].String()
		} else {
			b = "<end>"
		}
		if a != b {
			return fmt.Sprintf("item %d: %s  (specification: %s)", i+1, a, b)
		}
	}
	return "identical"
}

// canonAtom brings an integer comparison atom into one of two shapes, "(a == b)" or "(a < b)", and tells
// whether the literal's truth value flips: a != b is !(a == b); a >= b is !(a < b); a > b is b < a;
// a <= b is !(b < a); and over the integers (x - 1) < y is !(y < x), y < (x + 1) is !(x < y).
func canonAtom(a string) (string, bool) {
	if len(a) < 5 || a[0] != '(' || a[len(a)-1] != ')' {
		return a, false
	}
	depth := 0
	for i := 0; i < len(a); i++ {
		switch a[i] {
		case '(', '[':
			depth++
		case ')', ']':
			depth--
		case ' ':
			if depth != 1 {
				continue
			}
			for _, op := range []string{"==", "!=", "<=", ">=", "<", ">"} {
				if strings.HasPrefix(a[i+1:], op+" ") {
					lhs, rhs := a[1:i], a[i+1+len(op)+1:len(a)-1]
					flip := false
					switch op {
					case "==":
						return a, false
					case "!=":
						return "(" + lhs + " == " + rhs + ")", true
					case ">=":
						flip = true
					case ">":
						lhs, rhs = rhs, lhs
					case "<=":
						lhs, rhs = rhs, lhs
						flip = true
					}
					// now: lhs < rhs (possibly negated)
					if strings.HasPrefix(lhs, "(") && strings.HasSuffix(lhs, " - 1)") {
						x := lhs[1 : len(lhs)-5]
						return "(" + rhs + " < " + x + ")", !flip
					}
					if strings.HasPrefix(rhs, "(") && strings.HasSuffix(rhs, " + 1)") {
						x := rhs[1 : len(rhs)-5]
						return "(" + x + " < " + lhs + ")", !flip
					}
					// lengths are never negative: 0 < len(x) is !(len(x) == 0), len(x) < 1 is len(x) == 0
					if lhs == "0" && strings.HasPrefix(rhs, "len(") {
						return "(" + rhs + " == 0)", !flip
					}
					if rhs == "1" && strings.HasPrefix(lhs, "len(") {
						return "(" + lhs + " == 0)", flip
					}
					return "(" + lhs + " < " + rhs + ")", flip
				}
			}
			// the first top-level space decides: not a comparison we know
		}
	}
	return a, false
}

// canonLay returns a copy of the layout whose condition atoms are canonical.
func canonLay(l *Lay) *Lay {
	if l == nil {
		return nil
	}
	c := *l
	c.Items = nil
	for _, it := range l.Items {
		c.Items = append(c.Items, canonLay(it))
	}
	// a loop over the one-element window X[a:(a + 1)] is its body for the element X[a]
	if c.K == "loop" && len(c.Items) == 1 {
		if base, idx, ok := oneElementWindow(c.S); ok {
			body := substLay(c.Items[0], c.S+"[i]", base+"["+idx+"]")
			if !strings.Contains(body.String(), c.S) {
				return body
			}
		}
	}
	c.Cases = nil
	for _, cs := range l.Cases {
		nc := selCase{L: canonLay(cs.L)}
		for _, conj := range cs.Conds {
			var nj []condLit
			for _, lit := range conj {
				a, flip := canonAtom(lit.Atom)
				nj = append(nj, condLit{Atom: a, Truth: lit.Truth != flip})
			}
			nc.Conds = append(nc.Conds, nj)
		}
		c.Cases = append(c.Cases, nc)
	}
	return &c
}

// atomTermOf: the term registered for the atom, or for its canonical spelling (negated as needed).
func atomTermOf(a string) *T {
	if tv, ok := atomTerms.Load(a); ok {
		return tv.(*T)
	}
	if k, flip := canonAtom(a); k != a {
		if tv, ok := atomTerms.Load(k); ok {
			t := tv.(*T)
			if flip {
				return &T{K: "un", Op: token.NOT, Args: []*T{t}, Typ: t.Typ}
			}
			return t
		}
	}
	return nil
}

// lowBitsOnly: the term reads its parameter only through masks, comparisons, boolean structure and table
// lookups - no shift or arithmetic that could bring bits above the low eight into play - so that the values
// 0..255 exhaust the joint behaviour of such atoms (a value above 255 behaves like its low byte under a mask
// below 256 and like 255 under a comparison with a constant below 256).
func lowBitsOnly(t *T) bool {
	if t == nil {
		return true
	}
	if t.K == "bin" {
		switch t.Op {
		case token.SHL, token.SHR, token.ADD, token.SUB, token.MUL, token.QUO, token.REM, token.XOR:
			return false
		}
	}
	if t.K == "conv" || t.K == "call" {
		return false
	}
	for _, a := range t.Args {
		if !lowBitsOnly(a) {
			return false
		}
	}
	return true
}

// oneElementWindow: "X[a:(a + 1)]" -> X, a.
func oneElementWindow(coll string) (base, idx string, ok bool) {
	if !strings.HasSuffix(coll, "]") {
		return "", "", false
	}
	depth := 0
	open := -1
	for i := len(coll) - 1; i >= 0; i-- {
		switch coll[i] {
		case ']':
			depth++
		case '[':
			depth--
			if depth == 0 {
				open = i
			}
		}
		if open >= 0 {
			break
		}
	}
	if open <= 0 {
		return "", "", false
	}
	inner := coll[open+1 : len(coll)-1]
	// split at the top-level colon
	depth = 0
	for i := 0; i < len(inner); i++ {
		switch inner[i] {
		case '(', '[':
			depth++
		case ')', ']':
			depth--
		case ':':
			if depth == 0 {
				lo, hi := inner[:i], inner[i+1:]
				if hi == "("+lo+" + 1)" || hi == "(1 + "+lo+")" {
					return coll[:open], lo, true
				}
				return "", "", false
			}
		}
	}
	return "", "", false
}

// substLay: a copy of the layout with every occurrence of old in its terms replaced.
func substLay(l *Lay, old, new string) *Lay {
	if l == nil {
		return nil
	}
	c := *l
	c.S = strings.ReplaceAll(l.S, old, new)
	c.Items = nil
	for _, it := range l.Items {
		c.Items = append(c.Items, substLay(it, old, new))
	}
	c.Cases = nil
	for _, cs := range l.Cases {
		nc := selCase{L: substLay(cs.L, old, new)}
		for _, conj := range cs.Conds {
			var nj []condLit
			for _, lit := range conj {
				nj = append(nj, condLit{Atom: strings.ReplaceAll(lit.Atom, old, new), Truth: lit.Truth})
			}
			nc.Conds = append(nc.Conds, nj)
		}
		c.Cases = append(c.Cases, nc)
	}
	return &c
}
