package main

// parseAtom reads a condition atom in engine W's spelling - comparisons and bit operations over parameters
// pN and integer constants, fully parenthesised binary operations as W prints them - back into a term, so that
// atoms W spelt through an inlined helper (f.Has(x) as ((p2 & 128) == 128)) can be evaluated like the others.
// Anything else does not parse (nil).

import (
	"go/constant"
	"go/token"
	"go/types"
	"strconv"
	"strings"
)

func parseAtom(s string, paramTypes map[string]types.Type) *T {
	p := &atomParser{s: s, types: paramTypes}
	t := p.expr()
	p.skip()
	if t == nil || p.i != len(p.s) {
		return nil
	}
	return t
}

type atomParser struct {
	s     string
	i     int
	types map[string]types.Type
}

func (p *atomParser) skip() {
	for p.i < len(p.s) && p.s[p.i] == ' ' {
		p.i++
	}
}

var atomOps = []struct {
	s  string
	op token.Token
}{{"&^", token.AND_NOT}, {"==", token.EQL}, {"!=", token.NEQ}, {"<=", token.LEQ}, {">=", token.GEQ}, {"&&", token.LAND}, {"||", token.LOR},
	{"<", token.LSS}, {">", token.GTR}, {"&", token.AND}, {"|", token.OR}, {"^", token.XOR}}

func (p *atomParser) expr() *T {
	p.skip()
	if p.i >= len(p.s) {
		return nil
	}
	switch c := p.s[p.i]; {
	case c == '!':
		p.i++
		x := p.expr()
		if x == nil {
			return nil
		}
		return &T{K: "un", Op: token.NOT, Args: []*T{x}, Typ: types.Typ[types.Bool]}
	case c == '(':
		p.i++
		a := p.expr()
		if a == nil {
			return nil
		}
		p.skip()
		if p.i < len(p.s) && p.s[p.i] == ')' {
			p.i++
			return a
		}
		var op token.Token
		found := false
		for _, o := range atomOps {
			if strings.HasPrefix(p.s[p.i:], o.s) {
				op, found = o.op, true
				p.i += len(o.s)
				break
			}
		}
		if !found {
			return nil
		}
		b := p.expr()
		if b == nil {
			return nil
		}
		p.skip()
		if p.i >= len(p.s) || p.s[p.i] != ')' {
			return nil
		}
		p.i++
		typ := a.Typ
		switch op {
		case token.EQL, token.NEQ, token.LSS, token.LEQ, token.GTR, token.GEQ, token.LAND, token.LOR:
			typ = types.Typ[types.Bool]
		}
		if a.K == "const" && b.Typ != nil {
			a.Typ = b.Typ
		}
		if b.K == "const" && a.Typ != nil {
			b.Typ = a.Typ
		}
		return &T{K: "bin", Op: op, Args: []*T{a, b}, Typ: typ}
	case c == 'p' && p.i+1 < len(p.s) && p.s[p.i+1] >= '0' && p.s[p.i+1] <= '9':
		j := p.i + 1
		for j < len(p.s) && p.s[j] >= '0' && p.s[j] <= '9' {
			j++
		}
		name := p.s[p.i:j]
		if j < len(p.s) && (p.s[j] == '.' || p.s[j] == '[') {
			return nil // fields and elements are not parameters
		}
		p.i = j
		typ := p.types[name]
		if typ == nil {
			return nil
		}
		return &T{K: "param", Name: name, Typ: typ}
	case c >= '0' && c <= '9' || c == '-' && p.i+1 < len(p.s) && p.s[p.i+1] >= '0' && p.s[p.i+1] <= '9':
		j := p.i
		if c == '-' {
			j++
		}
		for j < len(p.s) && p.s[j] >= '0' && p.s[j] <= '9' {
			j++
		}
		v, err := strconv.ParseInt(p.s[p.i:j], 10, 64)
		if err != nil {
			return nil
		}
		p.i = j
		return &T{K: "const", C: constant.MakeInt64(v), Typ: types.Typ[types.Int]}
	}
	return nil
}
