package main

// Engine W: wire-layout extraction. A structural recursion over the SSA value
// of a []byte result that produces a layout expression: a sequence of
// fixed-width little/big-endian fields, var-ints, raw and reversed byte
// strings, constants, hashes of sub-layouts, loops over collections and
// guarded alternatives. Only an enumerated vocabulary of idioms is
// understood; anything else yields an "unknown" item, which the rules report
// as undecided. No go-bt code is executed.

import (
	"fmt"
	"go/constant"
	"go/token"
	"go/types"
	"math/big"
	"sort"
	"strings"

	"golang.org/x/tools/go/ssa"
)

type Lay struct {
	K     string // seq const le be raw rev varint zero hash loop sel unk phiref
	S     string // term / hex bytes / reason
	W     int
	Sh    int // le/be of width 1 only: the byte is bits Sh..Sh+7 of the value S
	Items []*Lay
	Cases []selCase // for sel
}

type selCase struct {
	Conds [][]condLit // DNF: disjunction of conjunctions
	L     *Lay
}

type condLit struct {
	Atom  string
	Truth bool
}

// mergeByteRuns: byte(v), byte(v>>8), byte(v>>16), ... written one after the other are the
// little-endian encoding of v (the reverse order the big-endian one).
func mergeByteRuns(items []*Lay) []*Lay {
	isByte := func(l *Lay) bool { return l.K == "le" && l.W == 1 }
	var out []*Lay
	for i := 0; i < len(items); {
		it := items[i]
		if !isByte(it) {
			out = append(out, it)
			i++
			continue
		}
		j := i + 1
		for j < len(items) && isByte(items[j]) && items[j].S == it.S {
			j++
		}
		n := j - i
		asc, desc := true, true
		for k := 0; k < n; k++ {
			if items[i+k].Sh != 8*k {
				asc = false
			}
			if items[i+k].Sh != 8*(n-1-k) {
				desc = false
			}
		}
		switch {
		case n > 1 && asc && (n == 2 || n == 4 || n == 8):
			out = append(out, &Lay{K: "le", W: n, S: it.S})
		case n > 1 && desc && (n == 2 || n == 4 || n == 8):
			out = append(out, &Lay{K: "be", W: n, S: it.S})
		default:
			for k := i; k < j; k++ {
				b := items[k]
				if b.Sh != 0 {
					b = &Lay{K: "le", W: 1, S: fmt.Sprintf("(%s >> %d)", b.S, b.Sh)}
				}
				out = append(out, b)
			}
		}
		i = j
	}
	return out
}

func seqOf(items ...*Lay) *Lay {
	var flat []*Lay
	for _, it := range items {
		if it == nil {
			continue
		}
		if it.K == "seq" {
			flat = append(flat, it.Items...)
		} else {
			flat = append(flat, it)
		}
	}
	flat = mergeByteRuns(flat)
	// merge adjacent constants
	var out []*Lay
	for _, it := range flat {
		if it.K == "zero" && it.W == 0 {
			continue
		}
		if it.K == "const" && it.S == "" {
			continue
		}
		if n := len(out); n > 0 && out[n-1].K == "const" && it.K == "const" {
			out[n-1] = &Lay{K: "const", S: out[n-1].S + it.S}
			continue
		}
		out = append(out, it)
	}
	return &Lay{K: "seq", Items: out}
}

func (l *Lay) String() string {
	if l == nil {
		return "?"
	}
	switch l.K {
	case "seq":
		var s []string
		for _, it := range l.Items {
			s = append(s, it.String())
		}
		if len(s) == 0 {
			return "ε"
		}
		return strings.Join(s, " · ")
	case "const":
		return "Const(" + l.S + ")"
	case "le":
		return fmt.Sprintf("LE%d(%s)", l.W, l.S)
	case "be":
		return fmt.Sprintf("BE%d(%s)", l.W, l.S)
	case "raw":
		return "Raw(" + l.S + ")"
	case "rev":
		return "Rev(" + l.S + ")"
	case "revl":
		return "Rev(" + l.Items[0].String() + ")"
	case "varint":
		return "VarInt(" + l.S + ")"
	case "zero":
		return fmt.Sprintf("Zero(%d)", l.W)
	case "hash":
		return "Hash[" + l.S + "](" + l.Items[0].String() + ")"
	case "loop":
		return "Loop[" + l.S + "](" + l.Items[0].String() + ")"
	case "sel":
		var s []string
		for _, c := range l.Cases {
			s = append(s, dnfString(c.Conds)+" => "+c.L.String())
		}
		return "Sel{" + strings.Join(s, " | ") + "}"
	case "phiref":
		return "φ"
	}
	return "Unknown(" + l.S + ")"
}

func dnfString(d [][]condLit) string {
	var alts []string
	for _, conj := range d {
		var ls []string
		for _, c := range conj {
			if c.Truth {
				ls = append(ls, c.Atom)
			} else {
				ls = append(ls, "!"+c.Atom)
			}
		}
		sort.Strings(ls)
		alts = append(alts, strings.Join(ls, " && "))
	}
	sort.Strings(alts)
	if len(alts) == 0 {
		return "true"
	}
	return strings.Join(alts, " || ")
}

func (l *Lay) hasUnknown() (bool, string) {
	if l == nil {
		return true, "nil"
	}
	if l.K == "unk" {
		return true, l.S
	}
	for _, it := range l.Items {
		if u, why := it.hasUnknown(); u {
			return true, why
		}
	}
	for _, c := range l.Cases {
		if u, why := c.L.hasUnknown(); u {
			return true, why
		}
	}
	return false, ""
}

// WEval evaluates layouts inside one function activation.
type WEval struct {
	P          *Prog
	fn         *ssa.Function
	args       map[ssa.Value]string         // parameter -> term in the outermost caller's vocabulary
	consts     map[ssa.Value]constant.Value // parameter valuation (true/false)
	nilArg     map[ssa.Value]bool           // parameter known nil / non-nil
	nonNil     map[ssa.Value]bool
	depth      int
	memo       map[ssa.Value]*Lay
	inPhi      map[*ssa.Phi]bool
	elemNames  map[ssa.Value]string        // loop element loads -> "coll[i]"
	allocEpoch map[*ssa.Alloc]int          // reader paths: named locals are printed as name#epoch
	pathPhi    map[*ssa.Phi]ssa.Value      // evaluation along one enumerated path: the incoming value chosen at each merge
	parentEval *WEval                      // for a function literal: the evaluator of the function that creates it
	argLay     map[ssa.Value]*Lay          // byte-slice parameters of an evaluated callee: the caller's layout of the argument
	pathBlocks map[*ssa.BasicBlock]bool    // evaluation along one enumerated path: the blocks on it (writes elsewhere did not happen)
	curSub     map[ssa.Value]ssa.Value     // while the literals of one path are printed: helper parameter -> argument
	callSite   *ssa.Call                   // the call whose callee is being evaluated (for facts that hold at the call)
	fillAcc    map[*ssa.MakeSlice]*ssa.Phi // buffers filled at a running offset: the offset's loop phi (its exit value is the length filled)
	splitPhi   *ssa.Phi                    // set when a merged value had to be printed inside a term (see evalFuncResult)
	splits     int
}

func newWEval(p *Prog, fn *ssa.Function) *WEval {
	w := &WEval{P: p, fn: fn, args: map[ssa.Value]string{}, consts: map[ssa.Value]constant.Value{}, nilArg: map[ssa.Value]bool{}, nonNil: map[ssa.Value]bool{},
		memo: map[ssa.Value]*Lay{}, inPhi: map[*ssa.Phi]bool{}, elemNames: map[ssa.Value]string{}}
	for i, p := range fn.Params {
		w.args[p] = fmt.Sprintf("p%d", i)
	}
	return w
}

// term renders a scalar / reference value as a term string in the caller's vocabulary.
func (w *WEval) term(v ssa.Value) string {
	switch x := v.(type) {
	case *ssa.Parameter:
		if s, ok := w.args[x]; ok {
			return s
		}
		if a, ok := w.curSub[x]; ok && a != v {
			return w.term(a)
		}
		return x.Name()
	case *ssa.Const:
		if x.Value == nil {
			return "nil"
		}
		return x.Value.ExactString()
	case *ssa.FieldAddr:
		return w.term(x.X) + "." + fieldName(x.X.Type(), x.Field)
	case *ssa.Field:
		return w.term(x.X) + "." + fieldName(x.X.Type(), x.Field)
	case *ssa.UnOp:
		if x.Op == token.MUL {
			if al, ok := x.X.(*ssa.Alloc); ok {
				if v, ok := cellValue(al); ok {
					return w.term(v) // a local captured by a function literal: the value it was given
				}
			}
			if fv, ok := x.X.(*ssa.FreeVar); ok {
				if v, ok := cellValue(freeVarCell(fv)); ok && w.parentEval != nil {
					return w.parentEval.term(v)
				}
			}
			if al, ok := x.X.(*ssa.Alloc); ok && w.allocEpoch != nil && al.Comment != "" {
				return fmt.Sprintf("%s#%d", al.Comment, w.allocEpoch[al])
			}
			switch x.X.(type) {
			case *ssa.FieldAddr, *ssa.IndexAddr:
				if n, ok := w.elemNames[x]; ok {
					return n
				}
				return w.term(x.X)
			}
			return "*" + w.term(x.X)
		}
		return x.Op.String() + w.term(x.X)
	case *ssa.IndexAddr:
		if _, isC := x.Index.(*ssa.Const); isC {
			return w.term(x.X) + "[" + w.term(x.Index) + "]"
		}
		return w.term(x.X) + "[" + w.idxTerm(x.Index) + "]"
	case *ssa.Convert:
		if convPreservesBits(x) {
			return w.term(x.X)
		}
		if t := w.term(x.X); strings.HasPrefix(t, "len(") {
			if b, ok := x.Type().Underlying().(*types.Basic); ok && b.Info()&types.IsInteger != 0 && intWidth(b) >= 32 {
				return t // a length obtained through a getter: assumption A-len
			}
		}
		return types.TypeString(x.Type(), func(*types.Package) string { return "" }) + "(" + w.term(x.X) + ")"
	case *ssa.ChangeType:
		return w.term(x.X)
	case *ssa.BinOp:
		if ph, ok := x.X.(*ssa.Phi); ok && x.Op == token.ADD && isLoopHeader(ph.Block()) {
			if k, ok := constInt(x.Y); ok && k.Int64() == 1 && phiStartsAt(ph, -1) {
				return "i" // range loops: the index is the header phi + 1
			}
		}
		if (x.Op == token.SHR || x.Op == token.SHL) && isZeroConst(x.Y) {
			return w.term(x.X)
		}
		return "(" + w.term(x.X) + " " + x.Op.String() + " " + w.term(x.Y) + ")"
	case *ssa.Call:
		if b, ok := x.Call.Value.(*ssa.Builtin); ok && (b.Name() == "len" || b.Name() == "cap") {
			if at := w.term(x.Call.Args[0]); at == "nil" {
				return "0"
			} else {
				return b.Name() + "(" + at + ")"
			}
		}
		if sc := x.Call.StaticCallee(); sc != nil {
			if strings.Contains(sc.String(), "encoding/binary") && strings.HasPrefix(sc.Name(), "Uint") {
				return decodeDesc(x)
			}
			if g := w.getterTerm(sc, x); g != "" {
				return g
			}
			// a helper outside the baseline list that hands back one value: named by what it returns
			if inlineHelper != nil && inlineHelper(sc) && w.depth < 4 && len(sc.Blocks) > 0 && sc.Signature.Results().Len() == 1 {
				var rets []*ssa.Return
				for _, b := range sc.Blocks {
					if r, ok := b.Instrs[len(b.Instrs)-1].(*ssa.Return); ok {
						rets = append(rets, r)
					}
				}
				if len(rets) == 1 {
					sub := newWEval(w.P, sc)
					sub.depth = w.depth + 1
					for i, p := range sc.Params {
						if i < len(x.Call.Args) {
							sub.args[p] = w.term(x.Call.Args[i])
						}
					}
					return sub.term(rets[0].Results[0])
				}
			}
			// tx.InputIdx(i) / tx.OutputIdx(i) return tx.Inputs[i] / tx.Outputs[i] (or nil out of range)
			if n := funcName(sc); (n == "(*bt.Tx).InputIdx" || n == "(*bt.Tx).OutputIdx") && len(x.Call.Args) == 2 {
				coll := ".Inputs["
				if n == "(*bt.Tx).OutputIdx" {
					coll = ".Outputs["
				}
				return w.term(x.Call.Args[0]) + coll + w.term(x.Call.Args[1]) + "]"
			}
			var as []string
			for _, a := range x.Call.Args {
				as = append(as, w.term(a))
			}
			return funcName(sc) + "(" + strings.Join(as, ",") + ")"
		}
	case *ssa.Phi:
		if isLoopHeader(x.Block()) && isIntType(x.Type()) {
			return "i"
		}
		if ch, ok := w.pathPhi[x]; ok {
			return w.term(ch)
		}
		if w.splitPhi == nil && !isLoopHeader(x.Block()) {
			w.splitPhi = x // a value merged from several branches appears in a term: evaluate once per branch
		}
		return "phi"
	case *ssa.Extract:
		return w.term(x.Tuple) + "#" + fmt.Sprint(x.Index)
	case *ssa.Slice:
		lo, hi := "", ""
		if x.Low != nil {
			lo = w.term(x.Low)
		}
		if x.High != nil {
			hi = w.term(x.High)
		}
		if lo == "" && hi == "" {
			return w.term(x.X)
		}
		return w.term(x.X) + "[" + lo + ":" + hi + "]"
	}
	return v.Name()
}

func (w *WEval) idxTerm(v ssa.Value) string {
	// loop indices are named by position only
	switch x := v.(type) {
	case *ssa.Phi:
		return "i"
	case *ssa.BinOp:
		if _, ok := x.X.(*ssa.Phi); ok {
			return "i"
		}
	case *ssa.Convert:
		return w.idxTerm(x.X)
	}
	return w.term(v)
}

// getterTerm: a single-block method that returns a field of its receiver (or len of one).
func (w *WEval) getterTerm(sc *ssa.Function, call *ssa.Call) string {
	if len(sc.Blocks) != 1 || len(call.Call.Args) == 0 {
		return ""
	}
	ret, ok := sc.Blocks[0].Instrs[len(sc.Blocks[0].Instrs)-1].(*ssa.Return)
	if !ok || len(ret.Results) != 1 {
		return ""
	}
	sub := newWEval(w.P, sc)
	for i, p := range sc.Params {
		if i < len(call.Call.Args) {
			sub.args[p] = w.term(call.Call.Args[i])
		}
	}
	for _, ins := range sc.Blocks[0].Instrs {
		switch ins.(type) {
		case *ssa.Store, *ssa.MapUpdate:
			return ""
		case *ssa.Call:
			if c := ins.(*ssa.Call); c.Call.StaticCallee() != nil {
				return ""
			}
		}
	}
	return sub.term(ret.Results[0])
}

func unk(format string, a ...interface{}) *Lay { return &Lay{K: "unk", S: fmt.Sprintf(format, a...)} }

func isByteSlice(t types.Type) bool {
	if s, ok := t.Underlying().(*types.Slice); ok {
		if b, ok := s.Elem().Underlying().(*types.Basic); ok {
			return b.Kind() == types.Uint8
		}
	}
	return false
}

// eval: layout of a []byte-typed (or string) value.
func (w *WEval) eval(v ssa.Value) *Lay {
	if l, ok := w.memo[v]; ok {
		return l
	}
	l := w.eval1(v)
	w.memo[v] = l
	return l
}

func (w *WEval) eval1(v ssa.Value) *Lay {
	if w.depth > 12 {
		return unk("recursion too deep")
	}
	switch x := v.(type) {
	case *ssa.Const:
		if x.Value == nil {
			return seqOf()
		}
		if x.Value.Kind() == constant.String {
			return &Lay{K: "const", S: fmt.Sprintf("%x", constant.StringVal(x.Value))}
		}
	case *ssa.Parameter:
		if w.nilArg[x] {
			return seqOf()
		}
		if l, ok := w.argLay[x]; ok {
			return l
		}
		return &Lay{K: "raw", S: w.term(x)}
	case *ssa.ChangeType:
		return w.eval(x.X)
	case *ssa.Convert:
		if k, ok := x.X.(*ssa.Const); ok && k.Value != nil && k.Value.Kind() == constant.String {
			return &Lay{K: "const", S: fmt.Sprintf("%x", constant.StringVal(k.Value))} // []byte("ord")
		}
		return &Lay{K: "raw", S: w.term(x.X)}
	case *ssa.UnOp:
		if x.Op == token.MUL {
			// *script  or a global holding constant bytes
			if g, ok := x.X.(*ssa.Global); ok {
				if bs, ok := globalBytes(w.P, g); ok {
					return &Lay{K: "const", S: bs}
				}
				return unk("global %s", g.Name())
			}
			return &Lay{K: "raw", S: w.term(x)}
		}
	case *ssa.Slice:
		return w.evalSlice(x)
	case *ssa.Call:
		return w.evalCall(x)
	case *ssa.Phi:
		return w.evalPhi(x)
	case *ssa.Extract:
		if c, ok := x.Tuple.(*ssa.Call); ok {
			if sc := c.Call.StaticCallee(); sc != nil && sc.String() == "encoding/hex.DecodeString" {
				if k, ok := c.Call.Args[0].(*ssa.Const); ok && k.Value != nil {
					return &Lay{K: "const", S: constant.StringVal(k.Value)}
				}
			}
			// one of several byte-slice results of a module function
			if sc := c.Call.StaticCallee(); sc != nil && inScope(pkgPathOf(sc)) && len(sc.Blocks) > 0 && w.depth < 6 &&
				x.Index < sc.Signature.Results().Len() && isByteSlice(sc.Signature.Results().At(x.Index).Type()) {
				return w.evalCalleeResult(sc, c.Call.Args, x.Index)
			}
		}
	}
	if mk, ok := v.(*ssa.MakeSlice); ok {
		// make([]byte, l, c) with a run-time capacity: l zero bytes (the capacity is only a hint)
		if k, isK := constInt(mk.Len); isK {
			if k.Int64() == 0 {
				return seqOf()
			}
			if l := w.constMakeWithStores(mk, int(k.Int64())); l != nil {
				return l
			}
			// the make is one of several merged at once (only the capacity differs): the element stores
			// go through the merged value
			if refs := mk.Referrers(); refs != nil {
				for _, r := range *refs {
					if ph, ok := r.(*ssa.Phi); ok {
						if k2, ok := sameConstLenMakes(ph); ok && k2 == int(k.Int64()) {
							if l := w.constMakeWithStores(ph, k2); l != nil {
								return l
							}
						}
					}
				}
			}
			return &Lay{K: "zero", W: int(k.Int64())}
		}
		return w.evalFilledMake(mk)
	}
	return unk("unrecognised producer %T (%s)", v, v.Name())
}

// byteOf: one byte holding the low 8 bits of an integer value.
func (w *WEval) byteOf(v ssa.Value) *Lay {
	for {
		if cv, ok := v.(*ssa.Convert); ok && isIntType(cv.X.Type()) {
			v = cv.X
			continue
		}
		// x & m with the low eight bits of m set: the low byte is that of x
		if bo, ok := v.(*ssa.BinOp); ok && bo.Op == token.AND {
			if m, isK := constInt(bo.Y); isK && m.Sign() >= 0 && new(big.Int).And(m, big.NewInt(0xff)).Int64() == 0xff {
				v = bo.X
				continue
			}
			if m, isK := constInt(bo.X); isK && m.Sign() >= 0 && new(big.Int).And(m, big.NewInt(0xff)).Int64() == 0xff {
				v = bo.Y
				continue
			}
		}
		break
	}
	if k, ok := constInt(v); ok {
		return &Lay{K: "const", S: fmt.Sprintf("%02x", k.Int64()&0xff)}
	}
	// byte(x >> k): bits k..k+7 of x
	if bo, ok := v.(*ssa.BinOp); ok && bo.Op == token.SHR {
		if k, isK := constInt(bo.Y); isK && k.Sign() >= 0 && k.Int64()%8 == 0 && k.Int64() < 64 {
			inner := bo.X
			for {
				if cv, ok := inner.(*ssa.Convert); ok && isIntType(cv.X.Type()) && convPreservesBits(cv) {
					inner = cv.X
					continue
				}
				break
			}
			return &Lay{K: "le", W: 1, S: w.term(inner), Sh: int(k.Int64())}
		}
	}
	if ph, ok := v.(*ssa.Phi); ok && !isLoopHeader(ph.Block()) && !w.inPhi[ph] {
		// a byte chosen on the way here: one alternative per incoming value
		if ch, ok := w.pathPhi[ph]; ok {
			return w.byteOf(ch)
		}
		b := ph.Block()
		if idom := b.Idom(); idom != nil {
			w.inPhi[ph] = true
			defer delete(w.inPhi, ph)
			return w.selectOver(idom, b, func(d *DPath) *Lay {
				if d.EndKind != "stop" || d.Target != b || len(d.Blocks) == 0 {
					return nil
				}
				last := d.Blocks[len(d.Blocks)-1]
				for i, p := range b.Preds {
					if p == last {
						return w.byteOf(ph.Edges[i])
					}
				}
				return nil
			})
		}
	}
	return &Lay{K: "le", W: 1, S: w.term(v)}
}

// fixedBufferStores: a make([]byte, n) with constant n whose elements are assigned at constant
// indices. A store counts when every branch condition dominating it is decided true by the
// parameter valuation, is dropped when one is decided false, and makes the buffer unknown when
// a condition is left open or two live stores hit the same index.
func (w *WEval) fixedBufferStores(al *ssa.Alloc, n int) *Lay {
	return w.fixedBufferStoresWin(al, n, 0, n)
}

// fixedBufferStoresWin: the bytes lo..hi-1 of an n-byte local buffer as its element stores and PutUintN calls
// (those on the path being read) leave them.
func (w *WEval) fixedBufferStoresWin(al *ssa.Alloc, n, lo, hi int) *Lay {
	items := make([]*Lay, n)
	for _, r := range *al.Referrers() {
		// the slice al[:] is the buffer value; its IndexAddr users are the element stores
		var ias []*ssa.IndexAddr
		switch x := r.(type) {
		case *ssa.IndexAddr:
			ias = append(ias, x)
		case *ssa.Slice:
			if x.Referrers() != nil {
				for _, rr := range *x.Referrers() {
					if ia, ok := rr.(*ssa.IndexAddr); ok {
						ias = append(ias, ia)
					}
				}
			}
		}
		for _, ia := range ias {
			if ia.Referrers() == nil {
				continue
			}
			for _, rr := range *ia.Referrers() {
				st, ok := rr.(*ssa.Store)
				if !ok || st.Addr != ssa.Value(ia) {
					continue
				}
				idx, ok := constInt(ia.Index)
				if !ok || idx.Sign() < 0 || int(idx.Int64()) >= n {
					return unk("buffer written at a non-constant index")
				}
				live := true
				if w.pathBlocks != nil {
					live = w.pathBlocks[st.Block()]
				} else {
					for _, dc := range dominatingConds(st.Block()) {
						cv, known := w.constBool(dc.cond)
						if !known {
							return unk("buffer element written under a condition the valuation leaves open")
						}
						if cv != dc.truth {
							live = false
						}
					}
				}
				if !live {
					continue
				}
				if items[idx.Int64()] != nil {
					return unk("buffer element written twice")
				}
				items[idx.Int64()] = w.byteOf(st.Val)
			}
		}
	}
	// binary.PutUintN(buf[k:], v): N/8 bytes from position k
	for _, r := range *al.Referrers() {
		sl0, ok := r.(*ssa.Slice)
		if !ok || sl0.Referrers() == nil {
			continue
		}
		views := []*ssa.Slice{sl0}
		base := map[*ssa.Slice]int64{sl0: 0}
		if sl0.Low != nil {
			if k, ok := constInt(sl0.Low); ok {
				base[sl0] = k.Int64()
			}
		}
		for _, rr := range *sl0.Referrers() {
			if s2, ok := rr.(*ssa.Slice); ok && s2.Referrers() != nil {
				off := base[sl0]
				if s2.Low != nil {
					k, ok := constInt(s2.Low)
					if !ok {
						return unk("buffer re-sliced at a non-constant position")
					}
					off += k.Int64()
				}
				views = append(views, s2)
				base[s2] = off
			}
		}
		for _, v := range views {
			for _, u := range *v.Referrers() {
				call, ok := u.(*ssa.Call)
				if !ok || call.Call.StaticCallee() == nil {
					continue
				}
				sc := call.Call.StaticCallee()
				if !strings.HasPrefix(sc.Name(), "PutUint") || !strings.Contains(sc.String(), "encoding/binary") || len(call.Call.Args) != 3 || call.Call.Args[1] != ssa.Value(v) {
					continue
				}
				if w.pathBlocks != nil && !w.pathBlocks[call.Block()] {
					continue
				}
				if w.pathBlocks == nil && len(dominatingConds(call.Block())) > 0 {
					for _, dc := range dominatingConds(call.Block()) {
						if cv, known := w.constBool(dc.cond); !known || cv != dc.truth {
							return unk("buffer filled under a condition the valuation leaves open")
						}
					}
				}
				width := 0
				fmt.Sscanf(strings.TrimPrefix(sc.Name(), "PutUint"), "%d", &width)
				k := "le"
				if strings.Contains(sc.String(), "bigEndian") {
					k = "be"
				}
				off := int(base[v])
				if off < 0 || off+width/8 > n {
					return unk("PutUint%d at offset %d of a %d byte buffer", width, off, n)
				}
				for i := off; i < off+width/8; i++ {
					if items[i] != nil {
						return unk("buffer bytes written twice")
					}
					items[i] = &Lay{K: "skip"}
				}
				items[off] = &Lay{K: k, W: width / 8, S: w.term(call.Call.Args[2])}
			}
		}
	}
	var out []*Lay
	for i := range items {
		if i < lo || i >= hi {
			continue
		}
		switch {
		case items[i] == nil:
			out = append(out, &Lay{K: "const", S: "00"})
		case items[i].K == "skip":
			if i == lo {
				return unk("the part read starts inside a multi-byte field of the buffer")
			}
		default:
			if items[i].W > 1 && i+items[i].W > hi {
				return unk("the part read ends inside a multi-byte field of the buffer")
			}
			out = append(out, items[i])
		}
	}
	return seqOf(out...)
}

// evalFilledMake: buf := make([]byte, L) with a run-time L, then filled in the same basic block by
// copy(buf[off:], src) and buf[i] = b. The writes must tile [0, L) exactly (offsets and lengths
// compared as linear forms over len(...) atoms), so no zero byte of the make survives.
func (w *WEval) evalFilledMake(mk *ssa.MakeSlice) *Lay {
	if mk.Referrers() == nil {
		return unk("make of run-time length, never filled")
	}
	type seg struct {
		off, n *TLin
		l      *Lay
	}
	var segs []seg
	accs := map[string]*ssa.Phi{}
	constLin := func(k int64) *TLin {
		l := newTLin()
		l.Const.SetInt64(k)
		return l
	}
	// lengths and offsets as linear forms over len(...) atoms; the count returned by copy(dst, src)
	// is len(src) (the destination is long enough when the writes tile the buffer, checked below)
	var lenOf func(v ssa.Value) *TLin
	var off func(v ssa.Value, depth int) *TLin
	lenOf = func(v ssa.Value) *TLin {
		if ph, ok := v.(*ssa.Phi); ok {
			if ch, ok := w.pathPhi[ph]; ok {
				return lenOf(ch)
			}
		}
		if k, ok := v.(*ssa.Const); ok && k.Value == nil {
			return constLin(0)
		}
		if sl, ok := v.(*ssa.Slice); ok && (sl.Low != nil || sl.High != nil) {
			if sl.High != nil {
				l := off(sl.High, 0)
				if sl.Low != nil {
					l = l.add(off(sl.Low, 0), -1)
				}
				return l
			}
		}
		l := newTLin()
		l.addAtom("len("+w.term(v)+")", big.NewInt(1))
		return l
	}
	off = func(v ssa.Value, depth int) *TLin {
		if depth > 12 {
			l := newTLin()
			l.addAtom(w.term(v), big.NewInt(1))
			return l
		}
		switch x := v.(type) {
		case *ssa.Const:
			if k, ok := constInt(x); ok {
				return constLin(k.Int64())
			}
		case *ssa.Convert:
			if isIntType(x.X.Type()) {
				return off(x.X, depth+1)
			}
		case *ssa.BinOp:
			// the index of a range loop (hidden counter + 1)
			if ph, ok := x.X.(*ssa.Phi); ok && x.Op == token.ADD && isLoopHeader(ph.Block()) && phiStartsAt(ph, -1) {
				if k, ok := constInt(x.Y); ok && k.Int64() == 1 {
					l := newTLin()
					l.addAtom("#i", big.NewInt(1))
					return l
				}
			}
			switch x.Op {
			case token.ADD:
				return off(x.X, depth+1).add(off(x.Y, depth+1), 1)
			case token.SUB:
				return off(x.X, depth+1).add(off(x.Y, depth+1), -1)
			case token.MUL:
				if k, ok := constInt(x.X); ok {
					return off(x.Y, depth+1).scale(k)
				}
				if k, ok := constInt(x.Y); ok {
					return off(x.X, depth+1).scale(k)
				}
			}
		case *ssa.Phi:
			if ch, ok := w.pathPhi[x]; ok {
				return off(ch, depth+1)
			}
			if isLoopHeader(x.Block()) && phiStartsAt(x, 0) && phiStepsByOne(x, x.Block()) {
				l := newTLin()
				l.addAtom("#i", big.NewInt(1))
				return l
			}
			if isLoopHeader(x.Block()) && phiStartsAt(x, 0) && isIntType(x.Type()) {
				// a running total (offset or size) carried round a loop from 0
				accs["#acc:"+x.Name()] = x
				l := newTLin()
				l.addAtom("#acc:"+x.Name(), big.NewInt(1))
				return l
			}
		case *ssa.Call:
			if b, ok := x.Call.Value.(*ssa.Builtin); ok {
				switch b.Name() {
				case "copy":
					return lenOf(x.Call.Args[1])
				case "len":
					return lenOf(x.Call.Args[0])
				}
			}
		}
		l := newTLin()
		l.addAtom(w.term(v), big.NewInt(1))
		return l
	}
	// writes happen in the block that makes the buffer, or all of them once per iteration of one range
	// loop (then the offsets advance by a constant stride and the result is a Loop item)
	var loopHdr *ssa.BasicBlock
	loopBad := false
	inBlock := func(ins ssa.Instruction) bool {
		if ins.Block() == mk.Block() {
			return true
		}
		hs := dominatingLoopHeaders(ins.Block())
		if len(hs) != 1 || !unconditionalInLoop(hs[0], ins.Block()) || !mk.Block().Dominates(hs[0]) {
			return false
		}
		if loopHdr != nil && loopHdr != hs[0] {
			loopBad = true
		}
		loopHdr = hs[0]
		return true
	}
	// a use of the buffer (or of a re-slice of it starting at base) as the destination of a writer
	var uses func(v ssa.Value, base *TLin, depth int) *Lay
	uses = func(v ssa.Value, base *TLin, depth int) *Lay {
		if v.Referrers() == nil || depth > 3 {
			return nil
		}
		for _, r := range *v.Referrers() {
			switch x := r.(type) {
			case *ssa.DebugRef, *ssa.Store, *ssa.MakeInterface, *ssa.Return, *ssa.Phi:
			case *ssa.IndexAddr:
				if x.Referrers() == nil {
					continue
				}
				for _, rr := range *x.Referrers() {
					if st, ok := rr.(*ssa.Store); ok && st.Addr == ssa.Value(x) {
						if !inBlock(st) {
							return unk("buffer element written outside the block that makes it")
						}
						segs = append(segs, seg{base.add(off(x.Index, 0), 1), constLin(1), w.byteOf(st.Val)})
					}
				}
			case *ssa.Slice:
				nb := base
				if x.Low != nil {
					nb = base.add(off(x.Low, 0), 1)
				}
				if e := uses(x, nb, depth+1); e != nil {
					return e
				}
			case *ssa.Call:
				if len(x.Call.Args) == 0 {
					continue
				}
				if b, ok := x.Call.Value.(*ssa.Builtin); ok {
					if b.Name() == "copy" && x.Call.Args[0] == v {
						if !inBlock(x) {
							return unk("copy into the buffer outside the block that makes it")
						}
						segs = append(segs, seg{base, lenOf(x.Call.Args[1]), w.eval(x.Call.Args[1])})
					}
					continue
				}
				sc := x.Call.StaticCallee()
				if sc == nil {
					return unk("buffer of run-time length handed to a dynamic call")
				}
				if strings.HasPrefix(sc.Name(), "PutUint") && strings.Contains(sc.String(), "encoding/binary") && len(x.Call.Args) == 3 && x.Call.Args[1] == v {
					if !inBlock(x) {
						return unk("PutUint into the buffer outside the block that makes it")
					}
					width := 0
					fmt.Sscanf(strings.TrimPrefix(sc.Name(), "PutUint"), "%d", &width)
					k := "le"
					if strings.Contains(sc.String(), "bigEndian") {
						k = "be"
					}
					segs = append(segs, seg{base, constLin(int64(width / 8)), &Lay{K: k, W: width / 8, S: w.term(x.Call.Args[2])}})
					continue
				}
				if sc.String() == "io.ReadFull" || strings.HasSuffix(sc.String(), "rand.Read") {
					return unk("buffer of run-time length filled by %s", calleeLabel(&x.Call))
				}
			default:
				return unk("buffer of run-time length used by %T", r)
			}
		}
		return nil
	}
	if e := uses(mk, constLin(0), 0); e != nil {
		return e
	}
	if len(segs) == 0 {
		return unk("make of run-time length %s, never filled", w.term(mk.Len))
	}
	total := off(mk.Len, 0)
	cur := constLin(0)
	if loopHdr != nil {
		// every write is k*#i + c: inside one iteration the c's tile [0, k) and the buffer is k*len(coll) long
		if loopBad {
			return unk("buffer filled in more than one loop")
		}
		// writes at a running offset: every write is #acc + c, inside one iteration the c's tile [0, step),
		// the offset advances by step, and the buffer's length is the total of the same step summed by an
		// earlier loop over the same collection
		accName := ""
		for _, sg := range segs {
			for a := range sg.off.Coef {
				if strings.HasPrefix(a, "#acc:") && accs[a] != nil && accs[a].Block() == loopHdr {
					accName = a
				}
			}
		}
		if accName != "" {
			return w.runningOffsetFill(mk, loopHdr, accName, accs, func() []struct {
				off, n *TLin
				l      *Lay
			} {
				var out []struct {
					off, n *TLin
					l      *Lay
				}
				for _, sg := range segs {
					out = append(out, struct {
						off, n *TLin
						l      *Lay
					}{sg.off, sg.n, sg.l})
				}
				return out
			}(), off)
		}
		var stride *big.Int
		for _, sg := range segs {
			co := sg.off.Coef["#i"]
			if co == nil || (stride != nil && stride.Cmp(co) != 0) {
				return unk("buffer filled in a loop at offsets that do not advance by one stride")
			}
			stride = co
		}
		strip := func(l *TLin) *TLin {
			m := newTLin()
			m.addAtom("#i", new(big.Int).Neg(stride))
			return l.add(m, 1)
		}
		var items []*Lay
		used := make([]bool, len(segs))
		for range segs {
			found := false
			for i, sg := range segs {
				if !used[i] && strip(sg.off).equal(cur) {
					used[i], found = true, true
					items = append(items, sg.l)
					cur = cur.add(sg.n, 1)
					break
				}
			}
			if !found {
				return unk("per-iteration writes do not tile the stride from offset %s", cur.String())
			}
		}
		strideLin := constLin(0)
		strideLin.Const.Set(stride)
		if !cur.equal(strideLin) {
			return unk("per-iteration writes cover %s of a stride of %s bytes", cur.String(), stride.String())
		}
		coll := w.rangeTerm(loopHdr)
		want := newTLin()
		want.addAtom("len("+coll+")", stride)
		if !total.equal(want) {
			return unk("buffer of length %s filled by a loop over %s with stride %s", total.String(), coll, stride.String())
		}
		return &Lay{K: "loop", S: coll, Items: []*Lay{seqOf(items...)}}
	}
	var items []*Lay
	used := make([]bool, len(segs))
	for range segs {
		found := false
		for i, sg := range segs {
			if !used[i] && sg.off.equal(cur) {
				used[i], found = true, true
				items = append(items, sg.l)
				cur = cur.add(sg.n, 1)
				break
			}
		}
		if !found {
			return unk("writes into the buffer do not tile it from offset %s", cur.String())
		}
	}
	if !cur.equal(total) {
		return unk("buffer of length %s filled only up to %s", total.String(), cur.String())
	}
	return seqOf(items...)
}

// globalBytes: the constant contents of a package-level []byte literal.
func globalBytes(p *Prog, g *ssa.Global) (string, bool) {
	pk := p.Pkgs[g.Pkg.Pkg.Path()]
	if pk == nil {
		return "", false
	}
	cl, _ := findVarLit(pk, g.Name())
	if cl == nil {
		return "", false
	}
	s := ""
	for _, e := range cl.Elts {
		v, ok := constInt64(pk, e)
		if !ok {
			return "", false
		}
		s += fmt.Sprintf("%02x", v)
	}
	return s, true
}

func (w *WEval) evalSlice(x *ssa.Slice) *Lay {
	al, ok := x.X.(*ssa.Alloc)
	if !ok {
		if x.Low == nil && x.High == nil {
			return w.eval(x.X)
		}
		// buf[:off] of a buffer filled at the running offset off: all of it
		if mk, isMk := x.X.(*ssa.MakeSlice); isMk && x.Low == nil && x.Max == nil {
			l := w.evalFilledMake(mk)
			if ph, isPh := x.High.(*ssa.Phi); isPh && (w.fillAcc[mk] == ph || strings.Contains(l.String(), "Unknown(") && isLoopHeader(ph.Block())) {
				return l
			}
		}
		// arr[:] of a hash result array etc.
		return unk("re-slice %s", w.term(x))
	}
	at, ok := al.Type().Underlying().(*types.Pointer).Elem().Underlying().(*types.Array)
	if !ok {
		return unk("slice of non-array alloc")
	}
	n := int(at.Len())
	// the slice's own bounds: make([]byte, l, c) is new [c]byte sliced [:l]
	lo, hi := 0, n
	if x.Low != nil {
		k, ok := constInt(x.Low)
		if !ok {
			return unk("slice with a non-constant lower bound")
		}
		lo = int(k.Int64())
	}
	if x.High != nil {
		k, ok := constInt(x.High)
		if !ok {
			return unk("slice with a non-constant upper bound")
		}
		hi = int(k.Int64())
	}
	if al.Comment != "makeslice" && al.Comment != "slicelit" && al.Comment != "varargs" && al.Comment != "complit" {
		// a named local array (var prefix [4]byte), part of it handed on after being filled
		if eb, ok := at.Elem().Underlying().(*types.Basic); ok && eb.Kind() == types.Uint8 && n <= 64 {
			return w.fixedBufferStoresWin(al, n, lo, hi)
		}
	}
	if lo != 0 || hi != n {
		if al.Comment != "makeslice" {
			return unk("partial slice of a literal")
		}
		n = hi - lo
		if n == 0 {
			return seqOf()
		}
	}
	switch al.Comment {
	case "makeslice":
		// a fixed-size buffer: filled by PutUintN?
		if refs := x.Referrers(); refs != nil {
			for _, r := range *refs {
				if c, ok := r.(*ssa.Call); ok {
					if sc := c.Call.StaticCallee(); sc != nil && strings.HasPrefix(sc.Name(), "PutUint") && len(c.Call.Args) == 3 && c.Call.Args[1] == ssa.Value(x) {
						k := "le"
						if strings.Contains(sc.String(), "bigEndian") {
							k = "be"
						}
						width := 0
						fmt.Sscanf(strings.TrimPrefix(sc.Name(), "PutUint"), "%d", &width)
						if width/8 != n {
							return unk("PutUint%d into a %d byte buffer", width, n)
						}
						return &Lay{K: k, W: n, S: w.term(c.Call.Args[2])}
					}
				}
			}
		}
		// element stores make the content non-zero
		written := false
		if refs := al.Referrers(); refs != nil {
			for _, r := range *refs {
				if _, ok := r.(*ssa.IndexAddr); ok {
					written = true
				}
			}
		}
		if x.Referrers() != nil {
			for _, r := range *x.Referrers() {
				if _, ok := r.(*ssa.IndexAddr); ok {
					written = true
				}
				if s2, ok := r.(*ssa.Slice); ok && s2.Referrers() != nil {
					for _, u := range *s2.Referrers() {
						if call, ok := u.(*ssa.Call); ok && call.Call.StaticCallee() != nil && strings.HasPrefix(call.Call.StaticCallee().Name(), "PutUint") {
							written = true
						}
					}
				}
			}
		}
		if written {
			if lo != 0 || n > 64 {
				return unk("buffer written element-wise")
			}
			return w.fixedBufferStores(al, n)
		}
		return &Lay{K: "zero", W: n}
	case "slicelit", "varargs":
		// literal bytes
		bs := make([]string, n)
		varBytes := map[int]*Lay{}
		if refs := al.Referrers(); refs != nil {
			for _, r := range *refs {
				ia, ok := r.(*ssa.IndexAddr)
				if !ok || ia.Referrers() == nil {
					continue
				}
				idx, ok := constInt(ia.Index)
				if !ok {
					return unk("literal with non-constant index")
				}
				for _, rr := range *ia.Referrers() {
					if st, ok := rr.(*ssa.Store); ok {
						if k, ok := constInt(st.Val); ok {
							bs[idx.Int64()] = fmt.Sprintf("%02x", k.Int64()&0xff)
						} else {
							varBytes[int(idx.Int64())] = w.byteOf(st.Val)
						}
					}
				}
			}
		}
		for i := range bs {
			if bs[i] == "" {
				bs[i] = "00"
			}
		}
		if len(varBytes) > 0 {
			// constant runs interleaved with single run-time bytes
			var items []*Lay
			run := ""
			for i := range bs {
				if vb, ok := varBytes[i]; ok {
					if run != "" {
						items = append(items, &Lay{K: "const", S: run})
						run = ""
					}
					items = append(items, vb)
					continue
				}
				run += bs[i]
			}
			if run != "" {
				items = append(items, &Lay{K: "const", S: run})
			}
			return seqOf(items...)
		}
		return &Lay{K: "const", S: strings.Join(bs, "")}
	}
	return unk("alloc %s", al.Comment)
}

func (w *WEval) evalCall(c *ssa.Call) *Lay {
	if b, ok := c.Call.Value.(*ssa.Builtin); ok {
		if b.Name() == "append" {
			if len(c.Call.Args) == 1 {
				return w.eval(c.Call.Args[0])
			}
			tail := w.eval(c.Call.Args[1])
			// buf = append(buf, 0, 0, 0, 0); binary.PutUintN(buf[len(buf)-N/8:], v): the zeros just appended are
			// overwritten in place, in the same block, by the encoding of v
			if tail.K == "const" && strings.Trim(tail.S, "0") == "" && c.Referrers() != nil {
				n := len(tail.S) / 2
				for _, r := range *c.Referrers() {
					sl, ok := r.(*ssa.Slice)
					if !ok || sl.High != nil || sl.Low == nil || sl.Referrers() == nil {
						continue
					}
					sub, isSub := sl.Low.(*ssa.BinOp)
					if !isSub || sub.Op != token.SUB {
						continue
					}
					ln, isLen := sub.X.(*ssa.Call)
					k, isK := constInt(sub.Y)
					if !isLen || !isK || !isLenCall(ln) || ln.Call.Args[0] != ssa.Value(c) || int(k.Int64()) != n {
						continue
					}
					for _, u := range *sl.Referrers() {
						pc, ok := u.(*ssa.Call)
						if !ok || pc.Call.StaticCallee() == nil || pc.Block() != c.Block() {
							continue
						}
						sc := pc.Call.StaticCallee()
						if strings.HasPrefix(sc.Name(), "PutUint") && strings.Contains(sc.String(), "encoding/binary") && len(pc.Call.Args) == 3 && pc.Call.Args[1] == ssa.Value(sl) {
							width := 0
							fmt.Sscanf(strings.TrimPrefix(sc.Name(), "PutUint"), "%d", &width)
							if width/8 == n {
								kk := "le"
								if strings.Contains(sc.String(), "bigEndian") {
									kk = "be"
								}
								tail = &Lay{K: kk, W: n, S: w.term(pc.Call.Args[2])}
							}
						}
					}
				}
			}
			return seqOf(w.eval(c.Call.Args[0]), tail)
		}
		return unk("builtin %s", b.Name())
	}
	sc := c.Call.StaticCallee()
	if sc == nil {
		return unk("dynamic call")
	}
	name := funcName(sc)
	if sc.Pkg != nil && !strings.HasPrefix(sc.Pkg.Pkg.Path(), modPath) {
		name = sc.String()
	}
	// binary.LittleEndian.AppendUintN(buf, v): buf followed by the N/8 bytes of v
	if strings.HasPrefix(sc.Name(), "AppendUint") && strings.Contains(sc.String(), "encoding/binary") && len(c.Call.Args) == 3 {
		width := 0
		fmt.Sscanf(strings.TrimPrefix(sc.Name(), "AppendUint"), "%d", &width)
		if width == 16 || width == 32 || width == 64 {
			k := "le"
			if strings.Contains(sc.String(), "bigEndian") {
				k = "be"
			}
			return seqOf(w.eval(c.Call.Args[1]), &Lay{K: k, W: width / 8, S: w.term(c.Call.Args[2])})
		}
	}
	if sc.String() == "(*bytes.Buffer).Bytes" && len(c.Call.Args) == 1 {
		if al := isBytesBufferAlloc(c.Call.Args[0]); al != nil {
			return w.evalBufferBytes(al, c)
		}
	}
	switch name {
	case "bt.ReverseBytes":
		if ac, ok := c.Call.Args[0].(*ssa.Call); ok {
			if asc := ac.Call.StaticCallee(); asc != nil && w.getterTerm(asc, ac) == "" {
				return &Lay{K: "revl", Items: []*Lay{w.eval(ac)}}
			}
		}
		return &Lay{K: "rev", S: w.term(c.Call.Args[0])}
	case "bt.LittleEndianBytes":
		// the helper stores a 32-bit value into a zeroed buffer of the requested width
		if n, ok := constInt(c.Call.Args[1]); ok && n.Int64() >= 4 && littleEndianBytesShape(sc) {
			l := &Lay{K: "le", W: 4, S: w.term(c.Call.Args[0])}
			if n.Int64() == 4 {
				return l
			}
			return seqOf(l, &Lay{K: "zero", W: int(n.Int64()) - 4})
		}
		return unk("LittleEndianBytes with a width that is not a constant >= 4, or a body other than make+PutUint32")
	case "(bt.VarInt).Bytes":
		if k, ok := constInt(c.Call.Args[0]); ok && k.Sign() >= 0 && k.Int64() < 0xfd {
			return &Lay{K: "const", S: fmt.Sprintf("%02x", k.Int64())}
		}
		if w.term(c.Call.Args[0]) == "0" {
			return &Lay{K: "const", S: "00"}
		}
		return &Lay{K: "varint", S: w.term(c.Call.Args[0])}
	case "github.com/libsv/go-bk/crypto.Hash160":
		// 20 opaque bytes, named by the call
		return &Lay{K: "raw", S: w.term(c)}
	case "github.com/libsv/go-bk/crypto.Sha256d":
		return &Lay{K: "hash", S: "sha256d", Items: []*Lay{w.eval(c.Call.Args[0])}}
	case "encoding/hex.EncodeToString":
		return &Lay{K: "hash", S: "hex", Items: []*Lay{w.eval(c.Call.Args[0])}}
	case "github.com/libsv/go-bk/crypto.Sha256":
		return &Lay{K: "hash", S: "sha256", Items: []*Lay{w.eval(c.Call.Args[0])}}
	}
	if inScope(pkgPathOf(sc)) && len(sc.Blocks) > 0 && sc.Signature.Results().Len() >= 1 && isByteSlice(sc.Signature.Results().At(0).Type()) {
		w.callSite = c
		defer func() { w.callSite = nil }()
		return w.evalCallee(sc, c.Call.Args)
	}
	return unk("call to %s", name)
}

// derefBefore: the pointer v (by its term) was dereferenced on every way to the call: it is not nil there.
func (w *WEval) derefBefore(call *ssa.Call, v ssa.Value) bool {
	if call == nil {
		return false
	}
	if _, isPtr := v.Type().Underlying().(*types.Pointer); !isPtr {
		return false
	}
	vt := w.term(v)
	if strings.Contains(vt, "Unknown") || vt == "" {
		return false
	}
	// the location is not written in this function (the term names the same value at both places)
	if ld, ok := v.(*ssa.UnOp); ok && ld.Op == token.MUL {
		if fa, ok := ld.X.(*ssa.FieldAddr); ok {
			f := fieldName(fa.X.Type(), fa.Field)
			for _, b := range w.fn.Blocks {
				for _, ins := range b.Instrs {
					if st, ok := ins.(*ssa.Store); ok {
						if fa2, ok := st.Addr.(*ssa.FieldAddr); ok && fieldName(fa2.X.Type(), fa2.Field) == f {
							return false
						}
					}
				}
			}
		}
	}
	for _, b := range w.fn.Blocks {
		if !(b == call.Block() || b.Dominates(call.Block())) {
			continue
		}
		for _, ins := range b.Instrs {
			if ins == ssa.Instruction(call) {
				break
			}
			if ld, ok := ins.(*ssa.UnOp); ok && ld.Op == token.MUL {
				if _, isPtr := ld.X.Type().Underlying().(*types.Pointer); isPtr && ld.X != v || ld.X == v {
					if ld.X == v || w.term(ld.X) == vt {
						return true
					}
				}
			}
		}
	}
	return false
}

// evalCallee evaluates a module function's []byte result with the call's arguments.
func (w *WEval) evalCallee(sc *ssa.Function, args []ssa.Value) *Lay {
	return w.evalCalleeResult(sc, args, 0)
}

func (w *WEval) evalCalleeResult(sc *ssa.Function, args []ssa.Value, ri int) *Lay {
	sub := newWEval(w.P, sc)
	sub.depth = w.depth + 1
	for i, p := range sc.Params {
		if i >= len(args) {
			break
		}
		sub.args[p] = w.term(args[i])
		if isByteSlice(p.Type()) && w.depth < 6 {
			// the callee appends to / copies from what the caller built so far
			if sub.argLay == nil {
				sub.argLay = map[ssa.Value]*Lay{}
			}
			sub.argLay[p] = w.eval(args[i])
		}
		if w.derefBefore(w.callSite, args[i]) {
			sub.nonNil[p] = true
		}
		switch a := args[i].(type) {
		case *ssa.Const:
			if a.Value == nil {
				sub.nilArg[p] = true
			} else {
				sub.consts[p] = a.Value
			}
		case *ssa.Parameter:
			if cv, ok := w.consts[a]; ok {
				sub.consts[p] = cv
			}
			if w.nilArg[a] {
				sub.nilArg[p] = true
			}
			if w.nonNil[a] {
				sub.nonNil[p] = true
			}
		case *ssa.BinOp:
			// lockingScript != nil with a known-nil parameter
			if cv, ok := w.constBool(a); ok {
				sub.consts[p] = constant.MakeBool(cv)
			}
		}
	}
	return sub.evalFuncResult(ri)
}

// constBool decides a boolean value from the parameter valuation.
func (w *WEval) constBool(v ssa.Value) (bool, bool) {
	switch x := v.(type) {
	case *ssa.Const:
		if x.Value != nil && x.Value.Kind() == constant.Bool {
			return constant.BoolVal(x.Value), true
		}
	case *ssa.Parameter:
		if cv, ok := w.consts[x]; ok && cv.Kind() == constant.Bool {
			return constant.BoolVal(cv), true
		}
	case *ssa.UnOp:
		if x.Op == token.NOT {
			if b, ok := w.constBool(x.X); ok {
				return !b, true
			}
		}
	case *ssa.BinOp:
		if x.Op == token.EQL || x.Op == token.NEQ {
			isNil := func(v ssa.Value) bool { c, ok := v.(*ssa.Const); return ok && c.Value == nil }
			var other ssa.Value
			if isNil(x.Y) {
				other = x.X
			} else if isNil(x.X) {
				other = x.Y
			}
			if other != nil {
				if p, ok := other.(*ssa.Parameter); ok {
					if w.nilArg[p] {
						return x.Op == token.EQL, true
					}
					if w.nonNil[p] {
						return x.Op == token.NEQ, true
					}
				}
			}
		}
		if x.Op == token.EQL || x.Op == token.NEQ {
			cv := func(v ssa.Value) (constant.Value, bool) {
				switch y := v.(type) {
				case *ssa.Const:
					if y.Value != nil && y.Value.Kind() == constant.Int {
						return y.Value, true
					}
				case *ssa.Parameter:
					if c, ok := w.consts[y]; ok && c.Kind() == constant.Int {
						return c, true
					}
				case *ssa.Convert:
					if p, ok := y.X.(*ssa.Parameter); ok {
						if c, ok := w.consts[p]; ok && c.Kind() == constant.Int {
							return c, true
						}
					}
				}
				return nil, false
			}
			a, oka := cv(x.X)
			b, okb := cv(x.Y)
			if oka && okb {
				eq := constant.Compare(a, token.EQL, b)
				return eq == (x.Op == token.EQL), true
			}
		}
		if x.Op == token.LAND || x.Op == token.LOR {
			a, oka := w.constBool(x.X)
			b, okb := w.constBool(x.Y)
			if oka && okb {
				if x.Op == token.LAND {
					return a && b, true
				}
				return a || b, true
			}
		}
	case *ssa.Phi:
		// short-circuit && / ||: all edges decided
		res, first := false, true
		for _, e := range x.Edges {
			b, ok := w.constBool(e)
			if !ok {
				return false, false
			}
			if first {
				res, first = b, false
			} else if b != res {
				return false, false
			}
		}
		return res, !first
	}
	return false, false
}

// evalFunc: layout of the function's (success) result.
func (w *WEval) evalFunc() *Lay { return w.evalFuncResult(0) }

// evalSplitting evaluates v; when a value merged from several branches had to be printed inside a
// term (a length, an integer field), the evaluation is repeated once per incoming branch with the
// merge resolved, and the results are combined into a selection on the branch conditions.
func (w *WEval) evalSplitting(v ssa.Value) *Lay {
	w.splitPhi = nil
	l := w.eval(v)
	ph := w.splitPhi
	w.splitPhi = nil
	if ph == nil || w.splits >= 4 {
		return l
	}
	b := ph.Block()
	idom := b.Idom()
	if idom == nil {
		return l
	}
	w.splits++
	defer func() { w.splits-- }()
	if w.pathPhi == nil {
		w.pathPhi = map[*ssa.Phi]ssa.Value{}
	}
	saved := w.memo
	defer func() { w.memo = saved; delete(w.pathPhi, ph) }()
	return w.selectOver(idom, b, func(d *DPath) *Lay {
		if d.EndKind != "stop" || d.Target != b || len(d.Blocks) == 0 {
			return nil
		}
		last := d.Blocks[len(d.Blocks)-1]
		for i, p := range b.Preds {
			if p == last {
				w.pathPhi[ph] = ph.Edges[i]
				w.memo = map[ssa.Value]*Lay{}
				return w.evalSplitting(v)
			}
		}
		return nil
	})
}

// evalFuncResult: the layout of result #ri of the function on its success returns.
func (w *WEval) evalFuncResult(ri int) *Lay {
	var rets []*ssa.Return
	for _, b := range w.fn.Blocks {
		if r, ok := b.Instrs[len(b.Instrs)-1].(*ssa.Return); ok {
			// skip error returns (last result a non-nil error)
			if n := len(r.Results); n >= 2 && isErrorType(r.Results[n-1].Type()) && returnKinds(r.Results[n-1]) == 2 {
				continue
			}
			if w.blockDead(b) {
				continue
			}
			rets = append(rets, r)
		}
	}
	switch len(rets) {
	case 0:
		return unk("no success return in %s", funcName(w.fn))
	case 1:
		if ri >= len(rets[0].Results) {
			return unk("result %d of %s does not exist", ri, funcName(w.fn))
		}
		return w.evalSplitting(rets[0].Results[ri])
	}
	// several success returns: a selection on their path conditions from the entry block
	return w.selectOver(w.fn.Blocks[0], nil, func(d *DPath) *Lay {
		if d.Ret == nil {
			return nil
		}
		for _, r := range rets {
			if r == d.Ret && ri < len(r.Results) {
				// evaluated along this path: writes in blocks the path does not visit did not happen
				savedMemo, savedBlocks, savedPhi := w.memo, w.pathBlocks, w.pathPhi
				w.memo = map[ssa.Value]*Lay{}
				w.pathBlocks = map[*ssa.BasicBlock]bool{}
				for _, b := range d.Blocks {
					w.pathBlocks[b] = true
				}
				// the values merged on this path are the ones that came in along it
				w.pathPhi = map[*ssa.Phi]ssa.Value{}
				for ph, v := range savedPhi {
					w.pathPhi[ph] = v
				}
				if d.Env != nil {
					for ph, v := range d.Env.Phi {
						if !isLoopHeader(ph.Block()) { // values carried round a loop are evaluated as loops
							w.pathPhi[ph] = v
						}
					}
				}
				l := w.eval(r.Results[ri])
				w.memo, w.pathBlocks, w.pathPhi = savedMemo, savedBlocks, savedPhi
				return l
			}
		}
		return nil
	})
}

// blockDead: unreachable under the parameter valuation (a dominating branch is decided the other way).
func (w *WEval) blockDead(b *ssa.BasicBlock) bool {
	for x := b; x != nil; x = x.Idom() {
		if len(x.Preds) != 1 {
			continue
		}
		pr := x.Preds[0]
		if iff, ok := pr.Instrs[len(pr.Instrs)-1].(*ssa.If); ok && pr.Succs[0] != pr.Succs[1] {
			if cv, ok := w.constBool(iff.Cond); ok {
				if (pr.Succs[0] == x) != cv {
					return true
				}
			}
		}
	}
	return false
}

func (w *WEval) evalPhi(ph *ssa.Phi) *Lay {
	// one of several make([]byte, k, <capacity>) of the same small constant length, none used except
	// through this merge: k bytes, set by the element stores made through the merged value
	if k, ok := sameConstLenMakes(ph); ok {
		if l := w.constMakeWithStores(ph, k); l != nil {
			return l
		}
	}
	if ch, ok := w.pathPhi[ph]; ok {
		return w.eval(ch)
	}
	if w.inPhi[ph] {
		return &Lay{K: "phiref"}
	}
	b := ph.Block()
	isHeader := false
	for _, p := range b.Preds {
		if b.Dominates(p) {
			isHeader = true
		}
	}
	if isHeader {
		w.inPhi[ph] = true
		defer delete(w.inPhi, ph)
		var init *Lay
		for i, p := range b.Preds {
			if !b.Dominates(p) {
				l := w.eval(ph.Edges[i])
				if init != nil && init.String() != l.String() {
					return unk("loop with several different initial values")
				}
				init = l
			}
		}
		if init == nil {
			return unk("malformed loop phi")
		}
		saved := w.memo
		w.memo = map[ssa.Value]*Lay{}
		body := w.selectOver(b, b, func(d *DPath) *Lay {
			if d.EndKind != "stop" || d.Target != b || len(d.Blocks) == 0 {
				return nil
			}
			last := d.Blocks[len(d.Blocks)-1]
			for i, p := range b.Preds {
				if p == last && b.Dominates(p) {
					return w.eval(ph.Edges[i])
				}
			}
			return nil
		})
		w.memo = saved
		// body must be φ · δ
		if body.K != "seq" || len(body.Items) == 0 || body.Items[0].K != "phiref" {
			if body.K == "phiref" {
				return init // nothing appended
			}
			return unk("loop accumulator is not extended by appending: %s", body.String())
		}
		delta := seqOf(body.Items[1:]...)
		for _, it := range delta.Items {
			if strings.Contains(it.String(), "φ") {
				return unk("loop accumulator used more than once per iteration")
			}
		}
		return seqOf(init, &Lay{K: "loop", S: w.rangeTerm(b), Items: []*Lay{delta}})
	}
	// merge: selection over the paths from the immediate dominator to this block
	idom := b.Idom()
	if idom == nil {
		return unk("merge without dominator")
	}
	return w.selectOver(idom, b, func(d *DPath) *Lay {
		if d.EndKind != "stop" || d.Target != b || len(d.Blocks) == 0 {
			return nil
		}
		last := d.Blocks[len(d.Blocks)-1]
		for i, p := range b.Preds {
			if p == last {
				return w.eval(ph.Edges[i])
			}
		}
		return nil
	})
}

// rangeTerm: the collection a range loop with header b iterates over.
func (w *WEval) rangeTerm(b *ssa.BasicBlock) string {
	// rangeindex loops: the header's predecessor computed len(coll); the body loads coll[i]
	for _, p := range b.Preds {
		if b.Dominates(p) {
			continue
		}
		for _, ins := range p.Instrs {
			if c, ok := ins.(*ssa.Call); ok {
				if bi, ok := c.Call.Value.(*ssa.Builtin); ok && bi.Name() == "len" {
					return w.term(c.Call.Args[0])
				}
			}
		}
	}
	// counted loop: for i := 0; i < len(coll); i++ visits the same elements in the same order as a range loop
	if iff, ok := b.Instrs[len(b.Instrs)-1].(*ssa.If); ok {
		if bo, isBo := iff.Cond.(*ssa.BinOp); isBo && bo.Op == token.LSS {
			if ph, isPh := bo.X.(*ssa.Phi); isPh && ph.Block() == b && phiStartsAt(ph, 0) && phiStepsByOne(ph, b) {
				if ln, isC := bo.Y.(*ssa.Call); isC {
					if bi, isB := ln.Call.Value.(*ssa.Builtin); isB && bi.Name() == "len" {
						return w.term(ln.Call.Args[0])
					}
				}
			}
		}
		return "while " + w.term(iff.Cond)
	}
	return "?"
}

// selectOver enumerates the paths from start (to stop, or to returns when stop is nil), groups
// them by the layout leaf returns, and builds a selection whose conditions are the path
// conditions with everything decided by the parameter valuation removed.
func (w *WEval) selectOver(start, stop *ssa.BasicBlock, leaf func(*DPath) *Lay) *Lay {
	var stopSet map[*ssa.BasicBlock]bool
	if stop != nil {
		stopSet = map[*ssa.BasicBlock]bool{stop: true}
	}
	paths, err := enumPaths(start, nil, stopSet, 4096)
	if err != nil {
		return unk("cannot enumerate paths: %v", err)
	}
	groups := map[string]*selCase{}
	var order []string
	for _, d := range paths {
		if stop == nil && d.EndKind != "return" {
			if d.EndKind == "loop" {
				continue
			}
		}
		// prune by valuation and collect literals; a named boolean (a phi of && / || computed before the
		// start block) is expanded into the conditions it stands for
		conjs := [][]condLit{nil}
		dead := false
		// helpers read as part of the path: their parameters stand for the arguments they were called with
		savedSub := w.curSub
		if d.Env != nil {
			w.curSub = d.Env.Sub
		}
		for _, pc := range d.Conds {
			if pc.At != nil && isLoopHeader(pc.At.Block()) {
				continue // loop continuation tests are part of the Loop item, not of the selection
			}
			if pc.At != nil {
				if cv, ok := w.constBool(pc.At.Cond); ok {
					// the recorded truth refers to the stripped condition; recompute the branch taken
					taken := takenTruth(d, pc.At)
					if taken != cv {
						dead = true
					}
					continue
				}
			}
			if ph, isPhi := pc.Cond.V.(*ssa.Phi); isPhi && ph.Parent() == w.fn {
				if dnf, ok := w.expandBoolPhi(ph, pc.Truth, 0); ok {
					var next [][]condLit
					for _, cj := range conjs {
						for _, alt := range dnf {
							next = append(next, append(append([]condLit{}, cj...), alt...))
						}
					}
					conjs = next
					continue
				}
			}
			for i := range conjs {
				conjs[i] = append(conjs[i], condLit{Atom: w.atomString(pc.Cond), Truth: pc.Truth})
			}
		}
		w.curSub = savedSub
		if dead || len(conjs) == 0 {
			continue
		}
		l := leaf(d)
		if l == nil {
			continue
		}
		k := l.String()
		g, ok := groups[k]
		if !ok {
			g = &selCase{L: l}
			groups[k] = g
			order = append(order, k)
		}
		g.Conds = append(g.Conds, conjs...)
	}
	if len(order) == 0 {
		return unk("no feasible path")
	}
	if len(order) == 1 {
		return groups[order[0]].L
	}
	// factor the common prefix of all alternatives
	var alts []*Lay
	for _, k := range order {
		alts = append(alts, seqOf(groups[k].L))
	}
	n := 0
	for {
		if n >= len(alts[0].Items) {
			break
		}
		same := true
		for _, a := range alts[1:] {
			if n >= len(a.Items) || a.Items[n].String() != alts[0].Items[n].String() {
				same = false
			}
		}
		if !same {
			break
		}
		n++
	}
	prefix := seqOf(alts[0].Items[:n]...)
	sel := &Lay{K: "sel"}
	for i, k := range order {
		sel.Cases = append(sel.Cases, selCase{Conds: groups[k].Conds, L: seqOf(alts[i].Items[n:]...)})
	}
	return seqOf(prefix, sel)
}

func isZeroConst(v ssa.Value) bool {
	k, ok := constInt(v)
	return ok && k.Sign() == 0
}

func phiStartsAt(ph *ssa.Phi, v int64) bool {
	for i, p := range ph.Block().Preds {
		if !ph.Block().Dominates(p) {
			if k, ok := constInt(ph.Edges[i]); ok && k.Int64() == v {
				return true
			}
		}
	}
	return false
}

func isLoopHeader(b *ssa.BasicBlock) bool {
	for _, p := range b.Preds {
		if b.Dominates(p) {
			return true
		}
	}
	return false
}

// atomString renders a branch condition term in the evaluator's vocabulary.
func (w *WEval) atomString(t *T) string {
	s := t.String()
	if t.V != nil {
		s = w.term(t.V)
		// a condition that is a function of the parameters alone (after helpers and write-once struct fields were
		// read through) is spelt by its term: the names of a helper's own locals mean nothing outside it
		if t.K != "call" && !hasKind(t, "call") && !hasKind(t, "phi") && w.depth == 0 {
			bt := map[string]*T{}
			baseTerms(t, bt)
			onlyParams := len(bt) > 0
			for _, b := range bt {
				if b.K != "param" {
					onlyParams = false
				}
			}
			if onlyParams {
				s = callOrdinal.ReplaceAllString(t.String(), "")
			}
		}
	}
	if hasKind(t, "phi") {
		// a test of a merged value: as a function of what decided the merge
		if g := gateTerm(t, 0); !hasKind(g, "phi") {
			s = callOrdinal.ReplaceAllString(g.String(), "")
			registerAtom(s, g)
			return s
		}
	}
	// W spells calls of small helpers by their bodies: the term is then read back from the spelling
	if hasKind(t, "call") {
		pt := map[string]types.Type{}
		for p, name := range w.args {
			if prm, ok := p.(*ssa.Parameter); ok {
				pt[name] = prm.Type()
			}
		}
		if g := parseAtom(s, pt); g != nil {
			registerAtom(s, g)
			return s
		}
	}
	registerAtom(s, t)
	return s
}

// convPreservesBits: an integer conversion after which the little/big-endian bytes of the
// result are those of the operand, zero-extended: unsigned to an unsigned or signed type at
// least as wide, or any conversion between types of equal width. Narrowing conversions and
// sign extensions stay visible in the term.
func convPreservesBits(x *ssa.Convert) bool {
	from, ok1 := x.X.Type().Underlying().(*types.Basic)
	to, ok2 := x.Type().Underlying().(*types.Basic)
	if !ok1 || !ok2 || from.Info()&types.IsInteger == 0 || to.Info()&types.IsInteger == 0 {
		return true // not an integer conversion (string/[]byte etc.): handled by the layout cases
	}
	fw, tw := intWidth(from), intWidth(to)
	if fw == tw {
		return true
	}
	if tw < fw {
		// assumption A-len (DESIGN 1): slice lengths and element counts are below 2^31
		return tw >= 32 && isLenCall(x.X)
	}
	if from.Info()&types.IsUnsigned != 0 {
		return true
	}
	// signed to wider: value-preserving only for non-negative operands (lengths)
	return nonNegativeValue(x.X)
}

func intWidth(b *types.Basic) int {
	switch b.Kind() {
	case types.Int8, types.Uint8:
		return 8
	case types.Int16, types.Uint16:
		return 16
	case types.Int32, types.Uint32:
		return 32
	}
	return 64
}

func nonNegativeValue(v ssa.Value) bool {
	switch x := v.(type) {
	case *ssa.Call:
		if b, ok := x.Call.Value.(*ssa.Builtin); ok && (b.Name() == "len" || b.Name() == "cap") {
			return true
		}
	case *ssa.Const:
		return x.Value != nil && x.Value.Kind() == constant.Int && constant.Sign(x.Value) >= 0
	case *ssa.Phi:
		return isLoopHeader(x.Block()) // range/counting loop indices
	case *ssa.BinOp:
		if x.Op == token.ADD {
			return nonNegativeValue(x.X) && nonNegativeValue(x.Y)
		}
	}
	return false
}

// littleEndianBytesShape confirms the helper's body: one make([]byte, l), one
// binary.LittleEndian.PutUint32(buf, v), buf returned.
func littleEndianBytesShape(fn *ssa.Function) bool {
	if len(fn.Blocks) != 1 || len(fn.Params) != 2 {
		return false
	}
	var mk *ssa.MakeSlice
	puts := 0
	for _, ins := range fn.Blocks[0].Instrs {
		switch x := ins.(type) {
		case *ssa.MakeSlice:
			if mk != nil || x.Len != ssa.Value(fn.Params[1]) && !isConvOf(x.Len, fn.Params[1]) {
				return false
			}
			mk = x
		case *ssa.Call:
			sc := x.Call.StaticCallee()
			if sc == nil || sc.String() != "(encoding/binary.littleEndian).PutUint32" || len(x.Call.Args) != 3 || x.Call.Args[1] != ssa.Value(mk) || x.Call.Args[2] != ssa.Value(fn.Params[0]) {
				return false
			}
			puts++
		case *ssa.Return:
			if len(x.Results) != 1 || x.Results[0] != ssa.Value(mk) {
				return false
			}
		case *ssa.Convert, *ssa.DebugRef, *ssa.UnOp:
		default:
			return false
		}
	}
	return mk != nil && puts == 1
}

func isConvOf(v ssa.Value, p *ssa.Parameter) bool {
	c, ok := v.(*ssa.Convert)
	return ok && c.X == ssa.Value(p)
}

func isLenCall(v ssa.Value) bool {
	c, ok := v.(*ssa.Call)
	if !ok {
		return false
	}
	b, ok := c.Call.Value.(*ssa.Builtin)
	return ok && b.Name() == "len"
}

// expandBoolPhi: the conditions under which a boolean phi (the merge of a short-circuit && / ||, possibly
// bound to a named local) has the value want, as a disjunction of conjunctions of branch conditions taken
// between the phi block's immediate dominator and the phi.
func (w *WEval) expandBoolPhi(ph *ssa.Phi, want bool, depth int) ([][]condLit, bool) {
	if depth > 4 {
		return nil, false
	}
	b := ph.Block()
	root := b.Idom()
	if root == nil {
		return nil, false
	}
	type arrival struct {
		conds []condLit
		pred  *ssa.BasicBlock
	}
	var arrivals []arrival
	okEnum := true
	var walk func(x *ssa.BasicBlock, acc []condLit, seen map[*ssa.BasicBlock]bool)
	walk = func(x *ssa.BasicBlock, acc []condLit, seen map[*ssa.BasicBlock]bool) {
		if len(arrivals) > 64 || seen[x] {
			okEnum = len(arrivals) <= 64
			return
		}
		seen[x] = true
		defer func() { seen[x] = false }()
		step := func(s *ssa.BasicBlock, extra *condLit) {
			a := acc
			if extra != nil {
				a = append(append([]condLit{}, acc...), *extra)
			}
			if s == b {
				arrivals = append(arrivals, arrival{a, x})
				return
			}
			if root.Dominates(s) && s != root {
				walk(s, a, seen)
			}
		}
		switch t := x.Instrs[len(x.Instrs)-1].(type) {
		case *ssa.Jump:
			step(x.Succs[0], nil)
		case *ssa.If:
			cond, neg := t.Cond, false
			for {
				if u, isU := cond.(*ssa.UnOp); isU && u.Op == token.NOT {
					cond, neg = u.X, !neg
					continue
				}
				break
			}
			if inner, isPhi := cond.(*ssa.Phi); isPhi {
				_ = inner
				okEnum = false
				return
			}
			atom := w.term(cond)
			registerAtom(atom, newTermEnv().Term(cond))
			step(x.Succs[0], &condLit{Atom: atom, Truth: !neg})
			step(x.Succs[1], &condLit{Atom: atom, Truth: neg})
		}
	}
	walk(root, nil, map[*ssa.BasicBlock]bool{})
	if !okEnum || len(arrivals) == 0 {
		return nil, false
	}
	var out [][]condLit
	for _, a := range arrivals {
		idx := -1
		for i, p := range b.Preds {
			if p == a.pred {
				idx = i
			}
		}
		if idx < 0 {
			return nil, false
		}
		e := ph.Edges[idx]
		neg := false
		for {
			if u, isU := e.(*ssa.UnOp); isU && u.Op == token.NOT {
				e, neg = u.X, !neg
				continue
			}
			break
		}
		switch v := e.(type) {
		case *ssa.Const:
			if v.Value == nil || v.Value.Kind() != constant.Bool {
				return nil, false
			}
			if (constant.BoolVal(v.Value) != neg) == want {
				out = append(out, a.conds)
			}
		case *ssa.Phi:
			sub, ok := w.expandBoolPhi(v, want != neg, depth+1)
			if !ok {
				return nil, false
			}
			for _, alt := range sub {
				out = append(out, append(append([]condLit{}, a.conds...), alt...))
			}
		default:
			out = append(out, append(append([]condLit{}, a.conds...), condLit{Atom: w.term(e), Truth: want != neg}))
		}
	}
	return out, true
}

// phiStepsByOne: every back edge of header h carries ph + 1.
func phiStepsByOne(ph *ssa.Phi, h *ssa.BasicBlock) bool {
	n := 0
	for i, p := range h.Preds {
		if !h.Dominates(p) {
			continue
		}
		bo, ok := ph.Edges[i].(*ssa.BinOp)
		if !ok || bo.Op != token.ADD || bo.X != ssa.Value(ph) {
			return false
		}
		if k, isK := constInt(bo.Y); !isK || k.Int64() != 1 {
			return false
		}
		n++
	}
	return n > 0
}

// runningOffsetFill: see evalFilledMake. off renders an integer value as a linear form over len(...) atoms,
// "#i" and "#acc:<phi>" atoms.
func (w *WEval) runningOffsetFill(mk *ssa.MakeSlice, loopHdr *ssa.BasicBlock, accName string, accs map[string]*ssa.Phi, segs []struct {
	off, n *TLin
	l      *Lay
}, off func(ssa.Value, int) *TLin) *Lay {
	one := big.NewInt(1)
	strip := func(l *TLin, name string) *TLin {
		m := newTLin()
		m.addAtom(name, big.NewInt(-1))
		return l.add(m, 1)
	}
	for _, sg := range segs {
		if co := sg.off.Coef[accName]; co == nil || co.Cmp(one) != 0 {
			return unk("buffer filled in a loop partly at a running offset, partly elsewhere")
		}
	}
	cur := newTLin()
	var items []*Lay
	used := make([]bool, len(segs))
	for range segs {
		found := false
		for i, sg := range segs {
			if !used[i] && strip(sg.off, accName).equal(cur) {
				used[i], found = true, true
				items = append(items, sg.l)
				cur = cur.add(sg.n, 1)
				break
			}
		}
		if !found {
			return unk("per-iteration writes do not follow one another from the running offset (gap at +%s)", cur.String())
		}
	}
	// the offset advances by exactly what was written
	acc := accs[accName]
	for i, p := range loopHdr.Preds {
		if loopHdr.Dominates(p) {
			if !strip(off(acc.Edges[i], 0), accName).equal(cur) {
				return unk("the running offset advances by %s but %s bytes are written per iteration", strip(off(acc.Edges[i], 0), accName).String(), cur.String())
			}
		}
	}
	// the buffer's length: a total carried round an earlier loop over the same collection, advancing by the same step
	total := off(mk.Len, 0)
	var sizeAcc *ssa.Phi
	for a, co := range total.Coef {
		if strings.HasPrefix(a, "#acc:") && co.Cmp(one) == 0 && len(total.Coef) == 1 && total.Const.Sign() == 0 {
			sizeAcc = accs[a]
		}
	}
	if sizeAcc == nil {
		return unk("buffer of length %s filled at a running offset: the length is not a total summed by an earlier loop", total.String())
	}
	sh := sizeAcc.Block()
	if !sh.Dominates(mk.Block()) || sh == loopHdr {
		return unk("the sizing loop does not run before the buffer is made")
	}
	coll, collSize := w.rangeTerm(loopHdr), w.rangeTerm(sh)
	if coll == "" || coll != collSize {
		return unk("buffer sized by a loop over %s but filled by a loop over %s", collSize, coll)
	}
	sizeName := "#acc:" + sizeAcc.Name()
	for i, p := range sh.Preds {
		if sh.Dominates(p) {
			step := strip(off(sizeAcc.Edges[i], 0), sizeName)
			if !step.equal(cur) {
				return unk("the buffer is sized with %s per element but %s bytes are written per element: the writes do not fit (or leave a tail)", step.String(), cur.String())
			}
		}
	}
	// every element is sized: the sizing loop has no exit other than its header and no iteration skips the addition
	for _, b := range w.fn.Blocks {
		if hs := dominatingLoopHeaders(b); len(hs) == 1 && hs[0] == sh {
			for _, s := range b.Succs {
				if s != sh && !loopBodyContains(sh, s) {
					return unk("the sizing loop can stop early")
				}
			}
			if _, isRet := b.Instrs[len(b.Instrs)-1].(*ssa.Return); isRet {
				return unk("the sizing loop can stop early")
			}
		}
	}
	// the elements are not changed between the two loops
	for _, b := range w.fn.Blocks {
		for _, ins := range b.Instrs {
			if st, ok := ins.(*ssa.Store); ok {
				if ia, ok := st.Addr.(*ssa.IndexAddr); ok && w.term(ia.X) == coll {
					return unk("the collection %s is written while its elements are sized and copied", coll)
				}
			}
		}
	}
	if w.fillAcc == nil {
		w.fillAcc = map[*ssa.MakeSlice]*ssa.Phi{}
	}
	w.fillAcc[mk] = acc
	return &Lay{K: "loop", S: coll, Items: []*Lay{seqOf(items...)}}
}

// constMakeWithStores: make([]byte, k, c) of a small constant length whose elements are then set by
// `buf[i] = x` with constant i: the k bytes, each the byte stored (zero where nothing is). Every such store
// must be the only one to its index and must come before every other use of the buffer (its block
// dominates theirs, or it precedes them in their block). nil when the buffer has no such stores; an
// unknown item when the stores do not have this shape.
func (w *WEval) constMakeWithStores(mk ssa.Value, k int) *Lay {
	if mk.Referrers() == nil || k > 16 {
		return nil
	}
	stores := map[int]*ssa.Store{}
	var uses []ssa.Instruction
	bad := false
	for _, r := range *mk.Referrers() {
		ia, ok := r.(*ssa.IndexAddr)
		if !ok {
			if _, isDbg := r.(*ssa.DebugRef); !isDbg {
				uses = append(uses, r)
			}
			continue
		}
		idx, isK := constInt(ia.Index)
		if !isK || ia.Referrers() == nil {
			bad = true
			continue
		}
		for _, rr := range *ia.Referrers() {
			switch st := rr.(type) {
			case *ssa.Store:
				if st.Addr != ssa.Value(ia) || stores[int(idx.Int64())] != nil {
					bad = true
				}
				stores[int(idx.Int64())] = st
			case *ssa.UnOp, *ssa.DebugRef:
			default:
				bad = true
			}
		}
	}
	if len(stores) == 0 {
		return nil
	}
	if bad {
		return unk("make([]byte, %d) with element stores that are not one constant-index store per position", k)
	}
	before := func(st *ssa.Store, u ssa.Instruction) bool {
		if st.Block() != u.Block() {
			return st.Block().Dominates(u.Block())
		}
		for _, ins := range st.Block().Instrs {
			if ins == ssa.Instruction(st) {
				return true
			}
			if ins == u {
				return false
			}
		}
		return false
	}
	var items []*Lay
	for i := 0; i < k; i++ {
		st := stores[i]
		if st == nil {
			items = append(items, &Lay{K: "zero", W: 1})
			continue
		}
		for _, u := range uses {
			if !before(st, u) {
				return unk("make([]byte, %d): the store to position %d does not come before every use of the buffer", k, i)
			}
		}
		items = append(items, w.byteOf(st.Val))
	}
	return seqOf(items...)
}

func sameConstLenMakes(ph *ssa.Phi) (int, bool) {
	k := -1
	for _, e := range ph.Edges {
		mk, ok := e.(*ssa.MakeSlice)
		if !ok {
			return 0, false
		}
		n, isK := constInt(mk.Len)
		if !isK || (k >= 0 && int(n.Int64()) != k) {
			return 0, false
		}
		k = int(n.Int64())
		if mk.Referrers() != nil {
			for _, r := range *mk.Referrers() {
				if r != ssa.Instruction(ph) {
					if _, dbg := r.(*ssa.DebugRef); !dbg {
						return 0, false
					}
				}
			}
		}
	}
	return k, k > 0
}
