package main

// C11 / C10 rules on size and fee accounting.
//   G-pred   fee-sufficiency predicates: false when IN < OUT, otherwise IN - OUT >= FEE
//   G-fee    feesPaid: floor(std bytes * std sat / std bytes-per) + floor(data ...), total = sum
//   G-size   SizeWithTypes: total = len(Bytes), data = sum of data scripts, std = total - data
//   P-est    estimatedFinalTx: works on a clone, errors for missing/unsupported scripts,
//            dummy unlocking script of 1+72+1+33 bytes; the unlocker pushes a compressed key

import (
	"encoding/hex"
	"fmt"
	"go/constant"
	"go/token"
	"math/big"
	"regexp"
	"sort"
	"strings"

	"golang.org/x/tools/go/ssa"
)

func ruleGPred(c *Ctx) {
	for _, name := range []string{"IsFeePaidEnough", "EstimateIsFeePaidEnough"} {
		fn := c.P.Func("", "*Tx", name)
		if fn == nil {
			c.Undecided("G-pred", "Tx."+name, token.NoPos, "not found")
			continue
		}
		paths, err := feasiblePaths(fn, 2000)
		if err != nil {
			c.Undecided("G-pred", "Tx."+name, fn.Pos(), err.Error())
			continue
		}
		subject := "p0"
		if name == "EstimateIsFeePaidEnough" {
			subject = "(*bt.Tx).estimatedFinalTx(p0)#0"
		}
		// the estimate may measure the amounts on the transaction itself and take the size through
		// EstimateSizeWithTypes: the same quantities while the premises below hold on this tree
		premiseNotes := map[string]string{}
		rename := func(s string) string {
			switch s {
			case "(*bt.Tx).TotalInputSatoshis(" + subject + ")":
				return "IN"
			case "(*bt.Tx).TotalOutputSatoshis(" + subject + ")":
				return "OUT"
			case "(*bt.Tx).feesPaid(" + subject + ", (*bt.Tx).SizeWithTypes(" + subject + "), p1)#0.TotalFeePaid":
				return "FEE"
			}
			if name == "EstimateIsFeePaidEnough" {
				switch s {
				case "(*bt.Tx).TotalInputSatoshis(p0)", "(*bt.Tx).TotalOutputSatoshis(p0)":
					if why := estimateKeepsAmounts(c); why != "" {
						premiseNotes["amounts"] = why
						return s
					}
					if strings.Contains(s, "Input") {
						return "IN"
					}
					return "OUT"
				}
				for _, recv := range []string{"p0", subject} {
					for _, size := range []string{"(*bt.Tx).SizeWithTypes(" + subject + ")", "(*bt.Tx).EstimateSizeWithTypes(p0)#0"} {
						if s != "(*bt.Tx).feesPaid("+recv+", "+size+", p1)#0.TotalFeePaid" {
							continue
						}
						if recv == "p0" {
							if fp := c.P.Func("", "*Tx", "feesPaid"); fp == nil || len(fp.Params) == 0 || (fp.Params[0].Referrers() != nil && len(*fp.Params[0].Referrers()) > 0) {
								premiseNotes["receiver"] = "feesPaid reads its receiver, so the fee of the estimated copy and of the transaction itself can differ"
								return s
							}
						}
						if strings.Contains(size, "EstimateSizeWithTypes") {
							if why := estimateSizeIsSizeOfEstimate(c); why != "" {
								premiseNotes["size"] = why
								return s
							}
						}
						return "FEE"
					}
				}
			}
			return s
		}
		got := map[string]bool{}
		for _, d := range paths {
			if d.EndKind == "return" && len(d.Ret.Results) == 2 {
				// the estimate may hand the finalised copy to the checked sibling: both results of
				// IsFeePaidEnough(subject, fees) returned as they are
				r0, r1 := atomName(d.Env.Term(d.Ret.Results[0])), atomName(d.Env.Term(d.Ret.Results[1]))
				call := "(*bt.Tx).IsFeePaidEnough(" + subject + ", p1)"
				if name == "EstimateIsFeePaidEnough" && r0 == call+"#0" && r1 == call+"#1" && len(d.Conds) == 1 {
					got["delegates"] = true
					continue
				}
			}
			if returnDesc(d) != "return nil" {
				continue
			}
			var cs []string
			for _, pc := range d.Conds {
				if s, ok := cmpNorm(pc.Cond, pc.Truth, rename); ok && !strings.Contains(s, "nil") {
					cs = append(cs, s)
				}
			}
			sort.Strings(cs)
			rt := d.Env.Term(d.Ret.Results[0])
			rs := rt.String()
			if s, ok := cmpNorm(rt, true, rename); ok {
				rs = s
			}
			got[strings.Join(cs, " && ")+" => "+rs] = true
		}
		want := setOf("-IN +OUT -1 >= 0 => false", "IN -OUT >= 0 => -FEE +IN -OUT >= 0")
		same := len(got) == len(want)
		for k := range got {
			if !want[k] {
				same = false
			}
		}
		if len(got) == 1 && got["delegates"] {
			same = true // IsFeePaidEnough itself is decided above, on the same formula
		}
		notes := ""
		for _, k := range []string{"amounts", "receiver", "size"} {
			if premiseNotes[k] != "" {
				notes += "; " + premiseNotes[k]
			}
		}
		c.Check(same, "G-pred", "Tx."+name, fn.Pos(), "on "+subject+": false when IN < OUT, else IN-OUT >= FEE, with FEE = feesPaid(SizeWithTypes).TotalFeePaid: "+strings.Join(keysSorted(got), " | "),
			fmt.Sprintf("%s's verdict changed: {%s}, specified {%s} (IN/OUT/FEE taken on %s)%s", name, strings.Join(keysSorted(got), " | "), strings.Join(keysSorted(want), " | "), subject, notes))
	}
}

// allocFieldStores: field -> term of the value stored into a struct allocated in fn.
func allocFieldStores(fn *ssa.Function, typeName string, env *TermEnv) (map[string]string, *ssa.Alloc) {
	out := map[string]string{}
	var the *ssa.Alloc
	for _, b := range fn.Blocks {
		for _, ins := range b.Instrs {
			st, ok := ins.(*ssa.Store)
			if !ok {
				continue
			}
			fa, ok := st.Addr.(*ssa.FieldAddr)
			if !ok {
				continue
			}
			al, ok := fa.X.(*ssa.Alloc)
			if !ok || namedOf(al.Type()) != typeName {
				continue
			}
			the = al
			f := fieldName(fa.X.Type(), fa.Field)
			if _, dup := out[f]; dup {
				out[f] = "<stored more than once>"
				continue
			}
			out[f] = canonTerm(env.Term(st.Val))
		}
	}
	return out, the
}

func ruleGFee(c *Ctx) {
	fn := c.P.Func("", "*Tx", "feesPaid")
	if fn == nil {
		c.Undecided("G-fee", "Tx.feesPaid", token.NoPos, "not found")
		return
	}
	got, al := allocFieldStores(fn, "TxFees", newTermEnv())
	std := `(*bt.FeeQuote).Fee(p2, "standard")#0.MiningFee`
	data := `(*bt.FeeQuote).Fee(p2, "data")#0.MiningFee`
	want := map[string]string{
		"StdFeePaid":   "((p1.TotalStdBytes * uint64(" + std + ".Satoshis)) / uint64(" + std + ".Bytes))",
		"DataFeePaid":  "((p1.TotalDataBytes * uint64(" + data + ".Satoshis)) / uint64(" + data + ".Bytes))",
		"TotalFeePaid": "(alloc#0.DataFeePaid + alloc#0.StdFeePaid)", // operands of + and * in sorted order
	}
	// the total may be read back from the two fields or be written out in full (the fields are write-once)
	full := "(" + want["DataFeePaid"] + " + " + want["StdFeePaid"] + ")"
	sem := map[string]string{}
	for f, w := range want {
		if !(got[f] == w || (f == "TotalFeePaid" && got[f] == full)) {
			sem = feesPaidByValue(fn) // spelt differently (a helper, named locals): compared by value
			break
		}
	}
	for f, w := range want {
		ok := got[f] == w || (f == "TotalFeePaid" && got[f] == full) || sem[f] == "ok"
		detail := got[f]
		if sem[f] != "" && sem[f] != "ok" {
			detail += " [" + sem[f] + "]"
		}
		c.Check(ok, "G-fee", "Tx.feesPaid/"+f, fn.Pos(), f+" = "+w, fmt.Sprintf("feesPaid computes %s as %s; specified floor arithmetic is %s", f, detail, w))
	}
	for f := range got {
		if _, ok := want[f]; !ok {
			c.Fail("G-fee", "Tx.feesPaid/extra/"+f, fn.Pos(), "feesPaid sets an unspecified field "+f)
		}
	}
	// the struct returned on success is that allocation; both Fee errors are propagated
	paths, err := feasiblePaths(fn, 200)
	if err == nil && al != nil {
		shapes := map[string]bool{}
		for _, d := range paths {
			r := "other"
			if d.Ret == nil {
				continue // a path that goes round a loop: its continuation is among the others
			}
			if d.Ret.Results[0] == ssa.Value(al) {
				r = "fees"
			} else if k, ok := d.Ret.Results[0].(*ssa.Const); ok && k.Value == nil {
				r = "nil"
			}
			shapes[r+", "+strings.TrimPrefix(returnDesc(d), "return ")] = true
		}
		c.Check(len(shapes) == 2 && shapes["fees, nil"] && shapes["nil, err"], "G-fee", "Tx.feesPaid/returns", fn.Pos(), "returns the computed fees with nil error, or nil with the quote's error", "feesPaid's return shapes changed: "+strings.Join(keysSorted(shapes), " | "))
	}
}

var callSiteMark = regexp.MustCompile(`@\d+`)

// feesPaidByValue: the three fields of the TxFees feesPaid returns, read on its success path with helpers
// spliced in, evaluated on a grid of byte counts and rates that separates floor from ceiling and rounding,
// each rate from the other and the two byte counts from each other; "ok" per field that equals
// floor(bytes * satoshis / per-bytes) of its own fee type (the total: their sum) on every cell, otherwise
// what was found.
func feesPaidByValue(fn *ssa.Function) map[string]string {
	out := map[string]string{}
	paths, err := feasiblePaths(fn, 400)
	if err != nil {
		return out
	}
	std := `(*bt.FeeQuote).Fee(p2, "standard")#0.MiningFee`
	data := `(*bt.FeeQuote).Fee(p2, "data")#0.MiningFee`
	for _, d := range paths {
		if d.EndKind != "return" || d.Ret == nil || len(d.Ret.Results) != 2 {
			continue
		}
		if et := d.Env.Term(d.Ret.Results[1]); !(et.K == "const" && et.C == nil) {
			continue
		}
		onPath := map[*ssa.BasicBlock]bool{}
		for _, b := range d.allBlocks(0) {
			onPath[b] = true
		}
		terms := map[string]*T{}
		for b := range onPath {
			for _, ins := range b.Instrs {
				st, ok := ins.(*ssa.Store)
				if !ok {
					continue
				}
				fa, ok := st.Addr.(*ssa.FieldAddr)
				if !ok {
					continue
				}
				if al, ok := d.Env.Val(fa.X).(*ssa.Alloc); !ok || namedOf(al.Type()) != "TxFees" {
					continue
				}
				f := fieldName(fa.X.Type(), fa.Field)
				if terms[f] != nil {
					out[f] = "stored more than once on the success path"
					continue
				}
				terms[f] = d.Env.Term(st.Val)
			}
		}
		grid := func(f func(S, D, ss, sb, ds, db int64)) {
			for _, S := range []int64{0, 1, 999, 1000, 1001, 1<<20 + 7} {
				for _, D := range []int64{0, 3, 1499, 1<<18 + 1} {
					for _, ss := range []int64{0, 1, 50, 500} {
						for _, sb := range []int64{1, 2, 1000} {
							for _, ds := range []int64{0, 1, 25, 333} {
								for _, db := range []int64{1, 3, 777} {
									f(S, D, ss, sb, ds, db)
								}
							}
						}
					}
				}
			}
		}
		for _, f := range []string{"StdFeePaid", "DataFeePaid", "TotalFeePaid"} {
			t := terms[f]
			if t == nil || out[f] != "" {
				if out[f] == "" {
					out[f] = "not stored on the success path"
				}
				continue
			}
			verdict := "ok"
			grid(func(S, D, ss, sb, ds, db int64) {
				if verdict != "ok" {
					return
				}
				stdPaid, dataPaid := S*ss/sb, D*ds/db
				known := map[string]*big.Int{
					"p1.TotalStdBytes": big.NewInt(S), "p1.TotalDataBytes": big.NewInt(D), "p1.TotalBytes": big.NewInt(S + D),
					std + ".Satoshis": big.NewInt(ss), std + ".Bytes": big.NewInt(sb),
					data + ".Satoshis": big.NewInt(ds), data + ".Bytes": big.NewInt(db),
				}
				asg := map[string]*big.Int{}
				bt := map[string]*T{}
				baseTerms(t, bt)
				for k := range bt {
					switch {
					case known[callSiteMark.ReplaceAllString(k, "")] != nil:
						asg[k] = known[callSiteMark.ReplaceAllString(k, "")]
					case strings.HasSuffix(k, ".StdFeePaid"): // the total may read the two fields back
						asg[k] = big.NewInt(stdPaid)
					case strings.HasSuffix(k, ".DataFeePaid"):
						asg[k] = big.NewInt(dataPaid)
					}
				}
				v, ok := evalTerm(t, asg)
				if !ok {
					var unknown []string
					for k := range bt {
						if asg[k] == nil {
							unknown = append(unknown, k)
						}
					}
					sort.Strings(unknown)
					verdict = "depends on " + strings.Join(unknown, ", ")
					return
				}
				want := map[string]int64{"StdFeePaid": stdPaid, "DataFeePaid": dataPaid, "TotalFeePaid": stdPaid + dataPaid}[f]
				if v.Cmp(big.NewInt(want)) != 0 {
					verdict = fmt.Sprintf("with %d standard bytes at %d/%d and %d data bytes at %d/%d it is %s, the floor formula gives %d", S, ss, sb, D, ds, db, v, want)
				}
			})
			out[f] = verdict
		}
		return out
	}
	return out
}

// ruleGQuote: the fee of a type is stored under and looked up by the caller's type key.
func ruleGQuote(c *Ctx) {
	if fn := c.P.Func("", "*FeeQuote", "AddQuote"); fn != nil {
		n, ok := 0, false
		for _, b := range fn.Blocks {
			for _, ins := range b.Instrs {
				if mu, isMU := ins.(*ssa.MapUpdate); isMU {
					n++
					ok = mu.Key == ssa.Value(fn.Params[1]) && mu.Value == ssa.Value(fn.Params[2])
				}
			}
		}
		c.Check(n == 1 && ok, "G-fee", "FeeQuote.AddQuote", fn.Pos(), "stores the given fee under the given fee type", "AddQuote no longer stores the given fee under the fee type it was called with (a quote lands in another slot)")
	} else {
		c.Undecided("G-fee", "FeeQuote.AddQuote", token.NoPos, "not found")
	}
	if fn := c.P.Func("", "*FeeQuote", "Fee"); fn != nil {
		n, ok := 0, false
		for _, b := range fn.Blocks {
			for _, ins := range b.Instrs {
				if lk, isL := ins.(*ssa.Lookup); isL {
					n++
					ok = lk.Index == ssa.Value(fn.Params[1])
				}
			}
		}
		c.Check(n == 1 && ok, "G-fee", "FeeQuote.Fee", fn.Pos(), "looks the fee up under the requested type", "Fee no longer looks up the requested fee type")
	}
}

// condSumLoop recognises  acc := 0; for _, e := range recv.F { if G(e) { acc += X(e) } }  inside a
// larger function and returns the accumulator phi at loop exit with the guard and summand terms.
func condSumLoop(p *Prog, fn *ssa.Function) (acc *ssa.Phi, over, guard, elem string, ok bool) {
	w := newWEval(p, fn)
	for _, header := range fn.Blocks {
		if !isLoopHeader(header) {
			continue
		}
		iff, isIf := header.Instrs[len(header.Instrs)-1].(*ssa.If)
		if !isIf {
			continue
		}
		bo, isBo := iff.Cond.(*ssa.BinOp)
		if !isBo || bo.Op != token.LSS {
			continue
		}
		ln, isCall := bo.Y.(*ssa.Call)
		if !isCall || !isLenCall(ln) {
			continue
		}
		// the index: a range loop's hidden counter (starts at -1, tested as idx+1 < len) or a
		// written-out  for i := 0; i < len(X); i++
		var idx, a *ssa.Phi
		if inc, ok := bo.X.(*ssa.BinOp); ok && inc.Op == token.ADD {
			if ph, ok := inc.X.(*ssa.Phi); ok && ph.Block() == header && phiStartsAt(ph, -1) {
				idx = ph
			}
		} else if ph, ok := bo.X.(*ssa.Phi); ok && ph.Block() == header && phiStartsAt(ph, 0) && phiStepsByOne(ph, header) {
			idx = ph
		}
		for _, ins := range header.Instrs {
			ph, isPhi := ins.(*ssa.Phi)
			if !isPhi {
				break
			}
			if ph != idx && phiStartsAt(ph, 0) && isIntType(ph.Type()) {
				a = ph
			}
		}
		if idx == nil || a == nil {
			continue
		}
		over = w.term(ln.Call.Args[0])
		// back edges: the accumulator unchanged (guard false) or acc + X (guard true); either as two
		// back edges into the header or merged by a phi in the latch
		type inc struct {
			add   *ssa.BinOp
			block *ssa.BasicBlock
		}
		var incs []inc
		unchanged, bad := 0, false
		var visit func(v ssa.Value, from *ssa.BasicBlock)
		visit = func(v ssa.Value, from *ssa.BasicBlock) {
			switch x := v.(type) {
			case *ssa.Phi:
				if x == a {
					unchanged++
					return
				}
				for k, e := range x.Edges {
					visit(e, x.Block().Preds[k])
				}
			case *ssa.BinOp:
				if x.Op == token.ADD && (x.X == ssa.Value(a) || x.Y == ssa.Value(a)) {
					incs = append(incs, inc{x, x.Block()})
					return
				}
				bad = true
			default:
				bad = true
			}
		}
		for i, pr := range header.Preds {
			if header.Dominates(pr) {
				visit(a.Edges[i], pr)
			}
		}
		if bad || len(incs) != 1 || unchanged != 1 {
			continue
		}
		add := incs[0].add
		x := add.Y
		if add.Y == ssa.Value(a) {
			x = add.X
		}
		elem = w.term(x)
		for _, dc := range dominatingConds(incs[0].block) {
			if call, isC := dc.cond.(*ssa.Call); isC && dc.truth && header.Dominates(call.Block()) {
				if sc := call.Call.StaticCallee(); sc != nil {
					guard = sc.Name() + "(" + w.term(call.Call.Args[0]) + ")"
				}
			}
		}
		return a, over, guard, elem, guard != ""
	}
	return nil, "", "", "", false
}

func ruleGSize(c *Ctx) {
	fn := c.P.Func("", "*Tx", "SizeWithTypes")
	if fn == nil {
		c.Undecided("G-size", "Tx.SizeWithTypes", token.NoPos, "not found")
		return
	}
	acc, over, guard, elem, ok := condSumLoop(c.P, fn)
	if !ok {
		// the sizes may be added up from field widths instead of measured on the serialisation
		if why := gSizeBySums(c, fn); why != "" {
			c.Undecided("G-size", "Tx.SizeWithTypes", fn.Pos(), "data-byte loop not of the form  n := 0; for range Outputs { if IsData { n += len(script) } }; and as sums of field widths: "+why)
		}
		return
	}
	c.Check(over == "p0.Outputs" && guard == "IsData(p0.Outputs[i].LockingScript)" && elem == "len(*p0.Outputs[i].LockingScript)", "G-size", "Tx.SizeWithTypes/data-bytes", fn.Pos(),
		"data bytes = sum over all outputs with IsData(script) of len(script)", fmt.Sprintf("data bytes are the sum of %s over %s under %s; specified: len(*p0.Outputs[i].LockingScript) over p0.Outputs under IsData(p0.Outputs[i].LockingScript)", elem, over, guard))
	env := newTermEnv()
	// name the accumulator DATA, Size() TOTAL
	got, _ := allocFieldStores(fn, "TxSize", env)
	rename := func(s string) string {
		s = strings.ReplaceAll(s, atomName(env.Term(acc)), "DATA")
		s = strings.ReplaceAll(s, "(*bt.Tx).Size(p0)", "TOTAL")
		return s
	}
	want := map[string]string{"TotalBytes": "uint64(TOTAL)", "TotalStdBytes": "uint64((TOTAL - DATA))", "TotalDataBytes": "uint64(DATA)"}
	for f, w := range want {
		c.Check(rename(got[f]) == w, "G-size", "Tx.SizeWithTypes/"+f, fn.Pos(), f+" = "+w+"  (so std + data = total)", fmt.Sprintf("SizeWithTypes sets %s to %s, specified %s", f, rename(got[f]), w))
	}
	// Size() is the serialised length
	if sz := c.P.Func("", "*Tx", "Size"); sz != nil {
		okSize := false
		if len(sz.Blocks) == 1 {
			if r, isR := sz.Blocks[0].Instrs[len(sz.Blocks[0].Instrs)-1].(*ssa.Return); isR {
				okSize = atomName(newTermEnv().Term(r.Results[0])) == "len((*bt.Tx).Bytes(p0))"
			}
		}
		detail := ""
		if !okSize {
			// Size() adds the field widths up instead of measuring the serialisation: compared with the length of
			// the layout engine W extracts from Tx.Bytes
			okSize, detail = sizeEqualsLayoutLength(c, sz)
		}
		c.Check(okSize, "G-size", "Tx.Size", sz.Pos(), "Size() = len(tx.Bytes())", "Size() is no longer the length of the serialisation"+detail)
	}
	// the estimate variants measure the estimated final transaction
	for _, n := range []string{"EstimateSize", "EstimateSizeWithTypes", "EstimateFeesPaid"} {
		f := c.P.Func("", "*Tx", n)
		if f == nil {
			c.Undecided("G-size", "Tx."+n, token.NoPos, "not found")
			continue
		}
		paths, err := feasiblePaths(f, 100)
		if err != nil {
			c.Undecided("G-size", "Tx."+n, f.Pos(), err.Error())
			continue
		}
		shapes := map[string]bool{}
		for _, d := range paths {
			shapes[atomName(d.Env.Term(d.Ret.Results[0]))+" / "+returnDesc(d)] = true
		}
		var want map[string]bool
		switch n {
		case "EstimateSize":
			want = setOf("0 / return err", "(*bt.Tx).Size((*bt.Tx).estimatedFinalTx(p0)#0) / return nil")
		case "EstimateSizeWithTypes":
			want = setOf("nil / return err", "(*bt.Tx).SizeWithTypes((*bt.Tx).estimatedFinalTx(p0)#0) / return nil")
		case "EstimateFeesPaid":
			// tail call: the error is feesPaid's
			want = setOf("nil / return err", "(*bt.Tx).feesPaid(p0, (*bt.Tx).EstimateSizeWithTypes(p0)#0, p1)#0 / return err")
		}
		same := len(shapes) == len(want)
		for k := range shapes {
			if !want[k] {
				same = false
			}
		}
		c.Check(same, "G-size", "Tx."+n, f.Pos(), strings.Join(keysSorted(shapes), " | "), fmt.Sprintf("%s changed: {%s}, specified {%s}", n, strings.Join(keysSorted(shapes), " | "), strings.Join(keysSorted(want), " | ")))
	}
}

func rulePEst(c *Ctx) {
	fn := c.P.Func("", "*Tx", "estimatedFinalTx")
	if fn == nil {
		c.Undecided("P-est", "Tx.estimatedFinalTx", token.NoPos, "not found")
		return
	}
	// works on a clone: no write under the receiver
	oCommon(c, oEngine(c), "P-est")
	rulePureParam(c, "P-est", "", "*Tx", "estimatedFinalTx", 0, nil)
	// the result is Clone(p0) and the loop ranges over the clone's inputs
	paths, err := feasiblePaths(fn, 500)
	if err != nil {
		c.Undecided("P-est", "Tx.estimatedFinalTx/paths", fn.Pos(), err.Error())
		return
	}
	for _, d := range paths {
		if returnDesc(d) == "return nil" {
			c.Check(atomName(d.Env.Term(d.Ret.Results[0])) == "(*bt.Tx).Clone(p0)", "P-est", "Tx.estimatedFinalTx/result-is-clone", fn.Pos(), "the estimate is made on tx.Clone()", "the estimated transaction is not the clone of the receiver")
		}
	}
	// guards before the dummy script is installed: PreviousTxScript != nil and (IsP2PKH || IsP2PKHInscription)
	var dummyStore *ssa.Store
	for _, b := range fn.Blocks {
		for _, ins := range b.Instrs {
			if st, ok := ins.(*ssa.Store); ok {
				if fa, ok := st.Addr.(*ssa.FieldAddr); ok && fieldName(fa.X.Type(), fa.Field) == "UnlockingScript" {
					dummyStore = st
				}
			}
		}
	}
	if dummyStore == nil {
		c.Fail("P-est", "Tx.estimatedFinalTx/dummy", fn.Pos(), "no dummy unlocking script is installed for unsigned inputs")
		return
	}
	w := newWEval(c.P, fn)
	var conds []string
	for _, dc := range dominatingConds(dummyStore.Block()) {
		s := w.term(dc.cond)
		if call, ok := dc.cond.(*ssa.Call); ok {
			if sc := call.Call.StaticCallee(); sc != nil {
				s = sc.Name() + "()"
			}
		}
		if !dc.truth {
			s = "!" + s
		}
		conds = append(conds, s)
	}
	sort.Strings(conds)
	joined := strings.Join(conds, " && ")
	c.Check(strings.Contains(joined, "PreviousTxScript == nil") && strings.Contains(joined, "!"), "P-est", "Tx.estimatedFinalTx/script-present", dummyStore.Pos(), "the dummy is installed only after the nil test on the spent script: "+joined, "the spent script is used without the nil test that reports ErrEmptyPreviousTxScript")
	// which inputs receive the dummy: exactly those whose own unlocking script is nil or empty
	{
		b := dummyStore.Block()
		from := b.Idom()
		for from != nil {
			if iff, isIf := from.Instrs[len(from.Instrs)-1].(*ssa.If); isIf {
				t := atomName(newTermEnv().Term(iff.Cond))
				if strings.Contains(t, "UnlockingScript") {
					if up := from.Idom(); up != nil {
						if i2, ok := up.Instrs[len(up.Instrs)-1].(*ssa.If); ok && strings.Contains(atomName(newTermEnv().Term(i2.Cond)), "UnlockingScript") {
							from = up
						}
					}
					break
				}
			}
			from = from.Idom()
		}
		okUnsigned := false
		detail := "no test of the unlocking script"
		if from != nil {
			paths, _ := regionPaths(from, b, 32)
			atoms, table, _ := dnfTable(paths)
			in := "(*bt.Tx).Clone(p0).Inputs[(phi"
			detail = fmt.Sprintf("%v %v", atoms, table)
			if len(atoms) == 2 {
				a0, a1 := atoms[0], atoms[1]
				isLen := func(a string) bool {
					return strings.HasPrefix(a, "(len(*"+in) && strings.HasSuffix(a, ".UnlockingScript) == 0)")
				}
				isNil := func(a string) bool {
					return strings.HasPrefix(a, "("+in) && strings.HasSuffix(a, ".UnlockingScript == nil)")
				}
				// atoms are sorted: "(len(...) == 0)" < "(*bt.Tx)..."? compare both orders
				switch {
				case isLen(a0) && isNil(a1):
					okUnsigned = !table["00"] && table["10"] && table["01"] && table["11"]
				case isNil(a0) && isLen(a1):
					okUnsigned = !table["00"] && table["10"] && table["01"] && table["11"]
				}
			}
		}
		c.Check(okUnsigned, "P-est", "Tx.estimatedFinalTx/unsigned-test", dummyStore.Pos(), "an input of the clone gets the dummy exactly when its unlocking script is nil or empty", "the inputs treated as unsigned are no longer exactly those with a nil or empty unlocking script (clones and parsed transactions carry empty, non-nil scripts): "+detail)
	}
	// error identity on the failing branches
	errs := map[string]bool{}
	for _, d := range paths {
		rd := returnDesc(d)
		if rd == "return nil" || d.EndKind != "return" {
			continue
		}
		if rd == "return err" {
			// fmt.Errorf("%w ...", ErrX): name the wrapped global
			for _, ins := range pathInstrs(d) {
				if call, ok := ins.(*ssa.Call); ok {
					if sc := call.Call.StaticCallee(); sc != nil && sc.String() == "fmt.Errorf" {
						for _, a := range appendedValues2(call) {
							if g := globalArgName(unwrapIface(a)); g != "?" {
								rd = "return wrap(" + g + ")"
							}
						}
					}
				}
			}
		}
		errs[rd] = true
	}
	c.Check(len(errs) == 2 && errs["return wrap(ErrEmptyPreviousTxScript)"] && errs["return ErrUnsupportedScript"], "P-est", "Tx.estimatedFinalTx/errors", fn.Pos(), "missing script -> ErrEmptyPreviousTxScript (wrapped), unsupported script -> ErrUnsupportedScript", "estimatedFinalTx's error returns changed: "+strings.Join(keysSorted(errs), " | "))
	// supported scripts: IsP2PKH or IsP2PKHInscription
	sup := map[string]bool{}
	for _, b := range fn.Blocks {
		for _, ins := range b.Instrs {
			if call, ok := ins.(*ssa.Call); ok {
				if sc := call.Call.StaticCallee(); sc != nil && strings.HasPrefix(sc.Name(), "Is") {
					sup[sc.Name()] = true
				}
			}
		}
	}
	c.Check(len(sup) == 2 && sup["IsP2PKH"] && sup["IsP2PKHInscription"], "P-est", "Tx.estimatedFinalTx/supported", fn.Pos(), "estimates only P2PKH and P2PKH-inscription inputs", "the set of script kinds estimated changed: "+strings.Join(keysSorted(sup), ","))
	// the dummy literal: <72-byte push> <33-byte push> = 107 bytes
	lit := ""
	for _, b := range fn.Blocks {
		for _, ins := range b.Instrs {
			if call, ok := ins.(*ssa.Call); ok {
				if sc := call.Call.StaticCallee(); sc != nil && sc.String() == "encoding/hex.DecodeString" {
					if k, ok := call.Call.Args[0].(*ssa.Const); ok && k.Value != nil && k.Value.Kind() == constant.String {
						lit = constant.StringVal(k.Value)
					}
				}
			}
		}
	}
	bs, herr := hex.DecodeString(lit)
	shape := herr == nil && len(bs) == 107 && bs[0] == 72 && bs[73] == 33
	c.Check(shape, "P-est", "Tx.estimatedFinalTx/dummy-shape", fn.Pos(), "dummy unlocking script = push(72) push(33) = 107 bytes: the largest low-S DER signature plus hash type, and a compressed key", fmt.Sprintf("the dummy unlocking script is %d bytes / not push(72) push(33): the estimate can fall below the signed size", len(bs)))
	// the library's unlocker pushes a compressed public key (33 bytes)
	if u := c.P.Func("unlocker", "*Simple", "UnlockingScript"); u != nil {
		compressed := false
		for _, b := range u.Blocks {
			for _, ins := range b.Instrs {
				if call, ok := ins.(*ssa.Call); ok {
					if sc := call.Call.StaticCallee(); sc != nil && sc.Name() == "NewP2PKHUnlockingScript" {
						if a, ok := call.Call.Args[0].(*ssa.Call); ok {
							if asc := a.Call.StaticCallee(); asc != nil && asc.Name() == "SerialiseCompressed" {
								compressed = true
							}
						}
					}
				}
			}
		}
		c.Check(compressed, "P-est", "unlocker/compressed-key", u.Pos(), "the unlocker pushes PubKey().SerialiseCompressed() (33 bytes, what the estimate assumes)", "the unlocker no longer pushes a compressed public key: signed inputs can be larger than the 107-byte estimate")
	} else {
		c.Undecided("P-est", "unlocker/compressed-key", token.NoPos, "unlocker.Simple.UnlockingScript not found")
	}
}

// appendedValues2: the variadic arguments of a call (stored into the compiler-made array).
func appendedValues2(call *ssa.Call) []ssa.Value {
	if len(call.Call.Args) == 0 {
		return nil
	}
	last := call.Call.Args[len(call.Call.Args)-1]
	sl, ok := last.(*ssa.Slice)
	if !ok {
		return nil
	}
	al, ok := sl.X.(*ssa.Alloc)
	if !ok || al.Referrers() == nil {
		return nil
	}
	var out []ssa.Value
	for _, r := range *al.Referrers() {
		if ia, ok := r.(*ssa.IndexAddr); ok && ia.Referrers() != nil {
			for _, rr := range *ia.Referrers() {
				if st, ok := rr.(*ssa.Store); ok {
					out = append(out, st.Val)
				}
			}
		}
	}
	return out
}

func unwrapIface(v ssa.Value) ssa.Value {
	switch x := v.(type) {
	case *ssa.MakeInterface:
		return x.X
	case *ssa.ChangeInterface:
		return x.X
	}
	return v
}

// estimateKeepsAmounts: estimatedFinalTx returns a Clone of its receiver on which nothing but
// Input.UnlockingScript is stored (Clone copying the satoshi amounts is rule G-clone, the totals reading
// only those amounts rule G-sum). "" when that holds.
func estimateKeepsAmounts(c *Ctx) string {
	fn := c.P.Func("", "*Tx", "estimatedFinalTx")
	if fn == nil {
		return "estimatedFinalTx not found"
	}
	oe := oEngine(c)
	for _, b := range fn.Blocks {
		for _, ins := range b.Instrs {
			switch x := ins.(type) {
			case *ssa.Store:
				if fa, ok := x.Addr.(*ssa.FieldAddr); ok && fieldName(fa.X.Type(), fa.Field) == "UnlockingScript" && namedOf(fa.X.Type()) == "Input" {
					continue
				}
				if rootIsLocal(x.Addr) {
					continue
				}
				return "estimatedFinalTx stores to " + shorten(newTermEnv().Term(x.Addr).String(), 80) + ": the estimated copy may differ from the transaction in more than its unlocking scripts"
			case *ssa.Call:
				sc := x.Call.StaticCallee()
				if sc == nil {
					if _, isB := x.Call.Value.(*ssa.Builtin); isB {
						continue
					}
					return "estimatedFinalTx makes a dynamic call"
				}
				if !inScope(pkgPathOf(sc)) || sc.Name() == "Clone" {
					continue
				}
				if sum := oe.Sums[sc]; sum == nil || len(sum.Writes) > 0 {
					return "estimatedFinalTx calls " + funcName(sc) + ", which writes memory it did not allocate"
				}
			}
		}
	}
	paths, err := feasiblePaths(fn, 2000)
	if err != nil {
		return err.Error()
	}
	n := 0
	for _, d := range paths {
		if returnDesc(d) != "return nil" {
			continue
		}
		n++
		if atomName(d.Env.Term(d.Ret.Results[0])) != "(*bt.Tx).Clone(p0)" {
			return "estimatedFinalTx returns " + shorten(atomName(d.Env.Term(d.Ret.Results[0])), 80) + ", not a Clone of its receiver"
		}
	}
	if n == 0 {
		return "estimatedFinalTx has no success path"
	}
	return ""
}

// estimateSizeIsSizeOfEstimate: EstimateSizeWithTypes succeeds exactly with estimatedFinalTx().SizeWithTypes().
func estimateSizeIsSizeOfEstimate(c *Ctx) string {
	fn := c.P.Func("", "*Tx", "EstimateSizeWithTypes")
	if fn == nil {
		return "EstimateSizeWithTypes not found"
	}
	paths, err := feasiblePaths(fn, 2000)
	if err != nil {
		return err.Error()
	}
	n := 0
	for _, d := range paths {
		if returnDesc(d) != "return nil" {
			continue
		}
		n++
		if got := atomName(d.Env.Term(d.Ret.Results[0])); got != "(*bt.Tx).SizeWithTypes((*bt.Tx).estimatedFinalTx(p0)#0)" {
			return "EstimateSizeWithTypes returns " + shorten(got, 100) + ", not the size of the estimated copy"
		}
	}
	if n == 0 {
		return "EstimateSizeWithTypes has no success path"
	}
	return ""
}

// gSizeBySums: SizeWithTypes and Size when the numbers are added up from field widths (possibly in a shared
// helper): TotalBytes and Size() are the length of the layout engine W extracts from Tx.Bytes, TotalDataBytes is
// the sum over the outputs with IsData(script) of len(script), TotalStdBytes is their difference. "" when all
// obligations were raised (passed or failed); a reason when the shape could not be read.
func gSizeBySums(c *Ctx, fn *ssa.Function) string {
	bytesFn := c.P.Func("", "*Tx", "Bytes")
	if bytesFn == nil {
		return "Tx.Bytes not found"
	}
	lay := evalWith(c, bytesFn, nil, nil)
	if u, why := lay.hasUnknown(); u {
		return "the layout of Tx.Bytes is not known: " + why
	}
	want, why := layLen(canonLay(lay))
	if want == nil {
		return "length of the layout: " + why
	}
	wantS := want.norm().String()
	vals := map[string]ssa.Value{}
	for _, b := range fn.Blocks {
		for _, ins := range b.Instrs {
			if st, ok := ins.(*ssa.Store); ok {
				if fa, ok := st.Addr.(*ssa.FieldAddr); ok && namedOf(fa.X.Type()) == "TxSize" {
					v := st.Val
					for {
						cv, ok := v.(*ssa.Convert)
						if !ok {
							break
						}
						v = cv.X
					}
					vals[fieldName(fa.X.Type(), fa.Field)] = v
				}
			}
		}
	}
	tot, data, std := vals["TotalBytes"], vals["TotalDataBytes"], vals["TotalStdBytes"]
	if tot == nil || data == nil || std == nil {
		return "the TxSize fields are not all stored"
	}
	ev := &sumEval{w: newWEval(c.P, fn)}
	gotTot, why := ev.eval(tot)
	if gotTot == nil {
		return "TotalBytes: " + why
	}
	gotData, why := ev.eval(data)
	if gotData == nil {
		return "TotalDataBytes: " + why
	}
	gt := gotTot.norm().String()
	c.Check(gt == wantS, "G-size", "Tx.SizeWithTypes/TotalBytes", fn.Pos(), "TotalBytes = the length of the serialisation, added up field by field: "+shorten(gt, 200),
		fmt.Sprintf("SizeWithTypes adds up %s, the serialisation Tx.Bytes writes is %s long", shorten(gt, 300), shorten(wantS, 300)))
	gd := gotData.norm()
	okData := len(gd.sums) == 1 && gd.c.Sign() == 0 && len(gd.atoms) == 0 && len(gd.sels) == 0 && gd.sums[0].coll == "p0.Outputs"
	if okData {
		b := gd.sums[0].body
		okData = b.c.Sign() == 0 && len(b.atoms) == 0 && len(b.sums) == 0 && len(b.sels) == 1 &&
			strings.Contains(b.sels[0].cond, "IsData(p0.Outputs[i].LockingScript)") && !strings.HasPrefix(b.sels[0].cond, "!") &&
			b.sels[0].a.String() == "len(*p0.Outputs[i].LockingScript)" && b.sels[0].b.String() == "0"
	}
	c.Check(okData, "G-size", "Tx.SizeWithTypes/data-bytes", fn.Pos(), "data bytes = sum over all outputs with IsData(script) of len(script)",
		"data bytes are "+shorten(gd.String(), 300)+"; specified: sum over p0.Outputs of len(*script) where IsData(script)")
	okStd := false
	if bo, ok := std.(*ssa.BinOp); ok && bo.Op == token.SUB {
		okStd = bo.X == tot && bo.Y == data
		if !okStd {
			// the same two quantities read again
			x, _ := ev.eval(bo.X)
			y, _ := ev.eval(bo.Y)
			okStd = x != nil && y != nil && x.norm().String() == gt && y.norm().String() == gd.String()
		}
	}
	c.Check(okStd, "G-size", "Tx.SizeWithTypes/TotalStdBytes", fn.Pos(), "TotalStdBytes = TotalBytes - TotalDataBytes (so std + data = total)", "TotalStdBytes is not TotalBytes - TotalDataBytes")
	if sz := c.P.Func("", "*Tx", "Size"); sz != nil {
		okSize, detail := false, ""
		if r := singleResult(sz, 0); r != nil {
			if atomName(newTermEnv().Term(r)) == "len((*bt.Tx).Bytes(p0))" {
				okSize = true
			} else {
				e2 := &sumEval{w: newWEval(c.P, sz)}
				if got, why := e2.eval(r); got != nil {
					detail = got.norm().String()
					okSize = detail == wantS
				} else {
					detail = why
				}
			}
		}
		c.Check(okSize, "G-size", "Tx.Size", sz.Pos(), "Size() = the length of the serialisation", "Size() is no longer the length of the serialisation: "+shorten(detail, 300)+" against "+shorten(wantS, 300))
	}
	return ""
}

// sizeEqualsLayoutLength: the number Size() returns, read as a sum expression, equals the length of the layout
// of Tx.Bytes.
func sizeEqualsLayoutLength(c *Ctx, sz *ssa.Function) (bool, string) {
	bytesFn := c.P.Func("", "*Tx", "Bytes")
	if bytesFn == nil {
		return false, ": Tx.Bytes not found"
	}
	lay := evalWith(c, bytesFn, nil, nil)
	if u, why := lay.hasUnknown(); u {
		return false, ": the layout of Tx.Bytes is not known: " + why
	}
	want, why := layLen(canonLay(lay))
	if want == nil {
		return false, ": length of the layout: " + why
	}
	wantS := want.norm().String()
	r := singleResult(sz, 0)
	if r == nil {
		return false, ": Size() has several results"
	}
	e2 := &sumEval{w: newWEval(c.P, sz)}
	got, why := e2.eval(r)
	if got == nil {
		return false, ": " + why
	}
	g := got.norm().String()
	if g == wantS {
		return true, ""
	}
	return false, ": adds up " + shorten(g, 300) + " against " + shorten(wantS, 300)
}
