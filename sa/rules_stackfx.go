package main

// S-stackfx (C05): net effect of every opcode handler on the data stack and the alt stack, on the paths
// that return nil, against the opcode's specified stack effect. Effects are summed over resolved
// calls: the two primitives are (*stack).PushByteArray (+1) and (*stack).nipN (-1 when it succeeds);
// every other stack method and every helper taking the thread is summarised from its own code
// (counting loops: per-iteration effect times the iteration count, which must be a parameter).
// Handlers whose effect depends on run-time data (IFDUP, IF/NOTIF, CHECKMULTISIG, pushes inside
// loops) carry the set of effects or are listed as variable with the reason.

import (
	"fmt"
	"go/constant"
	"go/token"
	"go/types"
	"sort"
	"strings"

	"golang.org/x/tools/go/ssa"
)

// fx: effect on (data stack, alt stack); coefN multiplies the method's int parameter.
type fx struct {
	d, a   int
	dn, an int // multiples of the parameter n
}

func (f fx) String() string {
	s := func(k, kn int) string {
		switch {
		case kn == 0:
			return fmt.Sprintf("%+d", k)
		case k == 0:
			return fmt.Sprintf("%+d*n", kn)
		}
		return fmt.Sprintf("%+d%+d*n", k, kn)
	}
	return "data" + s(f.d, f.dn) + " alt" + s(f.a, f.an)
}

func (f fx) add(g fx) fx { return fx{f.d + g.d, f.a + g.a, f.dn + g.dn, f.an + g.an} }

type fxSet struct {
	set      map[fx]bool
	variable string // non-empty: cannot be summarised, with the reason
}

type fxEngine struct {
	c    *Ctx
	memo map[*ssa.Function]*fxSet
	busy map[*ssa.Function]bool
}

// which stack a receiver expression denotes inside fn: "d", "a", "self" (the method's own receiver), "" (other)
func (e *fxEngine) stackOf(fn *ssa.Function, v ssa.Value) string {
	if len(fn.Params) > 0 && v == ssa.Value(fn.Params[0]) && namedOf(v.Type()) == "stack" {
		return "self"
	}
	if fa, ok := v.(*ssa.FieldAddr); ok && namedOf(fa.X.Type()) == "thread" {
		switch fieldName(fa.X.Type(), fa.Field) {
		case "dstack":
			return "d"
		case "astack":
			return "a"
		}
	}
	return ""
}

func (e *fxEngine) of(fn *ssa.Function) *fxSet {
	if r, ok := e.memo[fn]; ok {
		return r
	}
	if e.busy[fn] {
		return &fxSet{variable: "recursive"}
	}
	e.busy[fn] = true
	defer delete(e.busy, fn)
	r := e.compute(fn)
	e.memo[fn] = r
	return r
}

// callFx: effect of one call inside fn, in fn's frame ("self" stack = fn's receiver).
func (e *fxEngine) callFx(fn *ssa.Function, call *ssa.CallCommon) (*fxSet, bool) {
	sc := call.StaticCallee()
	if sc == nil {
		return nil, false
	}
	isStackMethod := sc.Signature.Recv() != nil && namedOf(sc.Signature.Recv().Type()) == "stack"
	if isStackMethod {
		which := e.stackOf(fn, call.Args[0])
		if which == "" {
			return nil, false // a stack other than data/alt (else stack): not counted
		}
		var base *fxSet
		switch sc.Name() {
		case "PushByteArray":
			base = &fxSet{set: map[fx]bool{{d: 1}: true}}
		case "nipN":
			base = &fxSet{set: map[fx]bool{{d: -1}: true}}
		default:
			base = e.of(sc)
		}
		if base.variable != "" {
			return base, true
		}
		// instantiate the parameter n with the call's constant argument, and map "self"(d) to the actual stack
		out := &fxSet{set: map[fx]bool{}}
		for f := range base.set {
			g := f
			if f.dn != 0 {
				if len(call.Args) < 2 {
					return &fxSet{variable: "parametric effect without an argument"}, true
				}
				k, ok := constInt(call.Args[1])
				if !ok {
					// parameter passed through from the caller's own parameter
					if p, isP := call.Args[1].(*ssa.Parameter); isP && len(fn.Params) > 1 && p == fn.Params[1] {
						g = fx{d: f.d, dn: f.dn}
					} else {
						return &fxSet{variable: "stack method called with a run-time count (" + sc.Name() + ")"}, true
					}
				} else {
					g = fx{d: f.d + f.dn*int(k.Int64())}
				}
			}
			if which == "a" {
				g = fx{a: g.d, an: g.dn}
			}
			out.set[g] = true
		}
		return out, true
	}
	// helpers and handlers that receive the thread
	takesThread := false
	for _, a := range call.Args {
		if namedOf(a.Type()) == "thread" {
			if _, isPtr := a.Type().Underlying().(*types.Pointer); isPtr {
				takesThread = true
			}
		}
	}
	if takesThread && inScope(pkgPathOf(sc)) && len(sc.Blocks) > 0 {
		return e.of(sc), true
	}
	return nil, false
}

func (e *fxEngine) compute(fn *ssa.Function) *fxSet {
	// a counting loop over the parameter: body effect times n
	var header *ssa.BasicBlock
	nHeaders := 0
	for _, b := range fn.Blocks {
		if isLoopHeader(b) {
			nHeaders++
			header = b
		}
	}
	if nHeaders > 1 && fn.Signature.Recv() != nil && namedOf(fn.Signature.Recv().Type()) == "stack" {
		return &fxSet{variable: "more than one loop"}
	}
	pathFx := func(d *DPath) (*fxSet, bool) {
		acc := map[fx]bool{{}: true}
		for _, ins := range pathInstrs(d) {
			var cc *ssa.CallCommon
			switch x := ins.(type) {
			case *ssa.Call:
				cc = &x.Call
			case *ssa.Defer:
				cc = &x.Call
			}
			if cc == nil {
				continue
			}
			s, ok := e.callFx(fn, cc)
			if !ok {
				continue
			}
			if s.variable != "" {
				return s, false
			}
			next := map[fx]bool{}
			for f := range acc {
				for g := range s.set {
					next[f.add(g)] = true
				}
			}
			acc = next
		}
		return &fxSet{set: acc}, true
	}
	isStackMethod := fn.Signature.Recv() != nil && namedOf(fn.Signature.Recv().Type()) == "stack"
	if header == nil || !isStackMethod {
		return e.walkFn(fn)
	}
	// one loop: only for stack methods counting their int parameter down to zero
	if len(fn.Params) < 2 {
		return &fxSet{variable: "loop whose iteration count is run-time data"}
	}
	iff, ok := header.Instrs[len(header.Instrs)-1].(*ssa.If)
	okCount := false
	if ok {
		if bo, isBo := iff.Cond.(*ssa.BinOp); isBo && bo.Op == token.GTR && isZeroConst(bo.Y) {
			if ph, isPh := bo.X.(*ssa.Phi); isPh && ph.Block() == header {
				// init = the parameter, step = -1
				for i, p := range header.Preds {
					if !header.Dominates(p) {
						okCount = ph.Edges[i] == ssa.Value(fn.Params[1])
					}
				}
				for i, p := range header.Preds {
					if header.Dominates(p) {
						sub, isSub := ph.Edges[i].(*ssa.BinOp)
						if !isSub || sub.Op != token.SUB || sub.X != ssa.Value(ph) {
							okCount = false
						} else if k, isK := constInt(sub.Y); !isK || k.Int64() != 1 {
							okCount = false
						}
					}
				}
			}
		}
	}
	if ok && !okCount {
		// the same count written upwards: for i := 0; i < n; i++
		if bo, isBo := iff.Cond.(*ssa.BinOp); isBo && bo.Op == token.LSS && bo.Y == ssa.Value(fn.Params[1]) {
			if ph, isPh := bo.X.(*ssa.Phi); isPh && ph.Block() == header && phiStartsAt(ph, 0) && phiStepsByOne(ph, header) {
				okCount = true
			}
		}
	}
	if !okCount {
		return &fxSet{variable: "loop not of the form 'for i := n; i > 0; i--'"}
	}
	body, err := enumPaths(header, nil, nil, 2000)
	if err != nil {
		return &fxSet{variable: "too many paths"}
	}
	per := map[fx]bool{}
	for _, d := range body {
		if d.EndKind != "loop" {
			continue
		}
		s, ok := pathFx(d)
		if !ok {
			return s
		}
		for f := range s.set {
			per[f] = true
		}
	}
	if len(per) != 1 {
		return &fxSet{variable: "loop body with several different effects"}
	}
	out := &fxSet{set: map[fx]bool{}}
	for f := range per {
		if f.dn != 0 || f.a != 0 {
			return &fxSet{variable: "nested parametric effect"}
		}
		out.set[fx{dn: f.d}] = true
	}
	return out
}

func (s *fxSet) String() string {
	if s.variable != "" {
		return "variable (" + s.variable + ")"
	}
	var ks []string
	for f := range s.set {
		ks = append(ks, f.String())
	}
	sort.Strings(ks)
	return "{" + strings.Join(ks, " | ") + "}"
}

// specified effects (data, alt) by opcode name; several entries = alternatives
func stackSpec(name string, val int64) ([]fx, string) {
	one := func(d, a int) []fx { return []fx{{d: d, a: a}} }
	switch {
	case val <= 0x4e, val == 0x4f, val >= 0x51 && val <= 0x60: // pushes, 1NEGATE, 1..16
		return one(1, 0), ""
	}
	switch name {
	case "OP_NOP", "OP_ELSE", "OP_ENDIF", "OP_CODESEPARATOR", "OP_CHECKLOCKTIMEVERIFY", "OP_CHECKSEQUENCEVERIFY",
		"OP_NOP1", "OP_NOP4", "OP_NOP5", "OP_NOP6", "OP_NOP7", "OP_NOP8", "OP_NOP9", "OP_NOP10",
		"OP_2ROT", "OP_2SWAP", "OP_ROT", "OP_SWAP", "OP_BIN2NUM", "OP_INVERT", "OP_1ADD", "OP_1SUB", "OP_NEGATE", "OP_ABS", "OP_NOT", "OP_0NOTEQUAL",
		"OP_RIPEMD160", "OP_SHA1", "OP_SHA256", "OP_HASH160", "OP_HASH256", "OP_PICK", "OP_SPLIT", "OP_RETURN":
		return one(0, 0), ""
	case "OP_IF", "OP_NOTIF":
		return []fx{{d: 0}, {d: -1}}, "pops the condition only in an executing branch"
	case "OP_VERIFY", "OP_DROP", "OP_NIP", "OP_ROLL", "OP_CAT", "OP_NUM2BIN", "OP_AND", "OP_OR", "OP_XOR", "OP_EQUAL",
		"OP_ADD", "OP_SUB", "OP_MUL", "OP_DIV", "OP_MOD", "OP_LSHIFT", "OP_RSHIFT", "OP_BOOLAND", "OP_BOOLOR", "OP_NUMEQUAL", "OP_NUMNOTEQUAL",
		"OP_LESSTHAN", "OP_GREATERTHAN", "OP_LESSTHANOREQUAL", "OP_GREATERTHANOREQUAL", "OP_MIN", "OP_MAX", "OP_CHECKSIG":
		return one(-1, 0), ""
	case "OP_2DROP", "OP_EQUALVERIFY", "OP_NUMEQUALVERIFY", "OP_WITHIN", "OP_CHECKSIGVERIFY":
		return one(-2, 0), ""
	case "OP_TOALTSTACK":
		return one(-1, 1), ""
	case "OP_FROMALTSTACK":
		return one(1, -1), ""
	case "OP_2DUP", "OP_2OVER":
		return one(2, 0), ""
	case "OP_3DUP":
		return one(3, 0), ""
	case "OP_IFDUP":
		return []fx{{d: 0}, {d: 1}}, "duplicates only a true top item"
	case "OP_DEPTH", "OP_DUP", "OP_OVER", "OP_TUCK", "OP_SIZE":
		return one(1, 0), ""
	case "OP_CHECKMULTISIG", "OP_CHECKMULTISIGVERIFY":
		return nil, "pops m+n+3 items: run-time counts"
	}
	return nil, "no specified effect (reserved / disabled / unknown opcode)"
}

func ruleSStackFx(c *Ctx) {
	entries, ok := readOpcodeArray(c, "S-stackfx")
	if !ok {
		return
	}
	e := &fxEngine{c: c, memo: map[*ssa.Function]*fxSet{}, busy: map[*ssa.Function]bool{}}
	// primitives: PushByteArray appends exactly one element
	if pb := c.P.Func("bscript/interpreter", "*stack", "PushByteArray"); pb != nil {
		appends := 0
		for _, b := range pb.Blocks {
			for _, ins := range b.Instrs {
				if call, isC := ins.(*ssa.Call); isC {
					if bi, isB := call.Call.Value.(*ssa.Builtin); isB && bi.Name() == "append" && len(appendedValues(call)) == 1 {
						appends++
					}
				}
			}
		}
		c.Check(appends == 1 && len(pb.Blocks) <= 3, "S-stackfx", "primitive/PushByteArray", pb.Pos(), "appends exactly one item", "PushByteArray no longer appends exactly one item")
	}
	sp := c.P.SSAPkg(modPath + "/bscript/interpreter")
	type hinfo struct {
		fn    *ssa.Function
		names []string
		vals  []int64
	}
	byHandler := map[string]*hinfo{}
	for _, en := range entries {
		if en.exec == nil {
			continue
		}
		fn := sp.Func(en.exec.Name())
		if fn == nil {
			continue
		}
		h := byHandler[fn.Name()]
		if h == nil {
			h = &hinfo{fn: fn}
			byHandler[fn.Name()] = h
		}
		h.names = append(h.names, en.name)
		h.vals = append(h.vals, en.val)
	}
	var hs []string
	for n := range byHandler {
		hs = append(hs, n)
	}
	sort.Strings(hs)
	decided, variable := 0, 0
	for _, hn := range hs {
		h := byHandler[hn]
		got := e.of(h.fn)
		for i, on := range h.names {
			want, note := stackSpec(on, h.vals[i])
			key := "handler/" + hn + "/" + on
			if want == nil {
				c.InfoNote("S-stackfx", key, h.fn.Pos(), "no fixed stack effect specified: "+note+"; computed "+got.String())
				variable++
				continue
			}
			if got.variable != "" {
				c.Undecided("S-stackfx", key, h.fn.Pos(), "the handler's stack effect cannot be summarised ("+got.variable+") but the opcode has a specified effect "+fmt.Sprint(want))
				continue
			}
			wantSet := map[fx]bool{}
			for _, w := range want {
				wantSet[w] = true
			}
			same := len(got.set) == len(wantSet)
			for f := range got.set {
				if !wantSet[f] {
					same = false
				}
			}
			// handlers that never return nil on a path (always an error) have an empty set: disabled/reserved
			if len(got.set) == 0 {
				same = false
			}
			decided++
			var ws []string
			for _, w := range want {
				ws = append(ws, w.String())
			}
			c.Check(same, "S-stackfx", key, h.fn.Pos(), "net effect on success "+got.String(), fmt.Sprintf("%s (%s) changes the stacks by %s on its successful paths; the opcode's specified effect is {%s} %s", hn, on, got.String(), strings.Join(ws, " | "), note))
		}
	}
	c.Covered["S-stackfx:opcodes_decided"] = decided
	c.Covered["S-stackfx:opcodes_variable"] = variable
	c.MinInstances("S-stackfx", decided, 150)
	_ = constant.MakeBool
}

// walkFn sums effects along all paths of fn that can end successfully. Loops whose blocks contain no
// effectful call are stepped over (entered at the header, left through every exit edge).
func (e *fxEngine) walkFn(fn *ssa.Function) *fxSet {
	out := &fxSet{set: map[fx]bool{}}
	blockFx := map[*ssa.BasicBlock]*fxSet{}
	for _, b := range fn.Blocks {
		acc := map[fx]bool{{}: true}
		for _, ins := range b.Instrs {
			var cc *ssa.CallCommon
			switch x := ins.(type) {
			case *ssa.Call:
				cc = &x.Call
			case *ssa.Defer:
				cc = &x.Call
			}
			if cc == nil {
				continue
			}
			s, ok := e.callFx(fn, cc)
			if !ok {
				continue
			}
			if s.variable != "" {
				return s
			}
			next := map[fx]bool{}
			for f := range acc {
				for g := range s.set {
					next[f.add(g)] = true
				}
			}
			acc = next
		}
		blockFx[b] = &fxSet{set: acc}
	}
	neutral := func(b *ssa.BasicBlock) bool {
		s := blockFx[b]
		return len(s.set) == 1 && s.set[fx{}]
	}
	// loops: blocks and exits
	loopOf := map[*ssa.BasicBlock]map[*ssa.BasicBlock]bool{}
	for _, h := range fn.Blocks {
		if !isLoopHeader(h) {
			continue
		}
		var latches []*ssa.BasicBlock
		for _, p := range h.Preds {
			if h.Dominates(p) {
				latches = append(latches, p)
			}
		}
		in := loopBlocks(h, latches)
		for b := range in {
			if !neutral(b) {
				return &fxSet{variable: "stack operations inside a loop whose iteration count is run-time data"}
			}
		}
		loopOf[h] = in
	}
	type state struct {
		b      *ssa.BasicBlock
		acc    fx
		nonNil string
	}
	seen := map[string]bool{}
	var walk func(b *ssa.BasicBlock, acc fx, nonNil map[ssa.Value]bool, depth int) bool
	walk = func(b *ssa.BasicBlock, acc fx, nonNil map[ssa.Value]bool, depth int) bool {
		if depth > 400 {
			return false
		}
		if in, isH := loopOf[b]; isH {
			// step over the loop: continue from every exit target
			exits := map[*ssa.BasicBlock]bool{}
			for lb := range in {
				for _, s := range lb.Succs {
					if !in[s] {
						exits[s] = true
					}
				}
			}
			okAll := true
			for x := range exits {
				if !walk(x, acc, nonNil, depth+1) {
					okAll = false
				}
			}
			return okAll
		}
		okAll := true
		for f := range blockFx[b].set {
			cur := acc.add(f)
			switch t := b.Instrs[len(b.Instrs)-1].(type) {
			case *ssa.Return:
				success := true
				if n := len(t.Results); n > 0 && isErrorType(t.Results[n-1].Type()) {
					r := t.Results[n-1]
					if k, isK := r.(*ssa.Const); isK {
						success = k.Value == nil
					} else if nonNil[r] {
						success = false
					} else if _, isMI := r.(*ssa.MakeInterface); isMI {
						success = false // a concrete error value wrapped in the interface is never nil
					} else if ph, isPh := r.(*ssa.Phi); isPh {
						_ = ph // merged error values: may be nil
					} else if call, isC := r.(*ssa.Call); isC {
						// constructing an error is not a success
						if sc := call.Call.StaticCallee(); sc != nil && (sc.Name() == "NewError" || sc.Name() == "success") {
							success = false
						}
					}
				}
				if success {
					out.set[cur] = true
				}
			case *ssa.Panic:
			case *ssa.Jump:
				if !walk(b.Succs[0], cur, nonNil, depth+1) {
					okAll = false
				}
			case *ssa.If:
				for i, s := range b.Succs {
					nn := nonNil
					if bo, isBo := t.Cond.(*ssa.BinOp); isBo {
						if k, isK := bo.Y.(*ssa.Const); isK && k.Value == nil && isErrorType(bo.X.Type()) {
							if (bo.Op == token.NEQ && i == 0) || (bo.Op == token.EQL && i == 1) {
								nn = map[ssa.Value]bool{bo.X: true}
								for k2 := range nonNil {
									nn[k2] = true
								}
							}
						}
					}
					if !walk(s, cur, nn, depth+1) {
						okAll = false
					}
				}
			}
		}
		return okAll
	}
	_ = seen
	if !walk(fn.Blocks[0], fx{}, map[ssa.Value]bool{}, 0) {
		return &fxSet{variable: "control flow too deep"}
	}
	return out
}
